#!/bin/bash
cd /verif
run() { ./seed_eval.sh /verif/seeded/$1 "${@:2}"; }
run C01-2 C01:s1_object_continue_shaped
run C01-3 C01:l5_null_slice_with_n5 C07:l5_null_slice_with_n3
run C02-3 C02:i1_indexes_3
run C04-1 C04:c08_string_literal_1char
run C04-3 C04:c08_scalar_number
run C05-3 C05:s1_object_continue_shaped
run C13-3 C13:c13_indent
run C12-3 C12:ep_options
run C11-3 C11:frag::
run C11-2 C11:c11_vec_try
run C11-1 C11:c11_object_mapped_abb
run C14-1 C14:c14_prefix
run C14-3 C14:c14_clone_aa
VERIF_MEM_GB=30 run C14-2 C14:c14_laws_scalars
echo ALLDONE2 >> .build/logs/seed-summary.txt
