#!/bin/sh
# development aid: the quick tier of every claimed property in two parallel streams (7 jobs each)
cd "$(dirname "$0")"
mkdir -p .build/logs
stream() {
  for p in "$@"; do
    s=$(date +%s)
    VERIF_JOBS=7 ./check $p --tier quick > .build/logs/$p-quick.log 2>&1
    echo "$p rc=$? $(( $(date +%s) - s ))s" >> .build/logs/summary-final.txt
  done
}
stream C01 C02 C04 C05 C06 C07 C08 &
stream C09 C10 C11 C12 C13 C14 C15 C20 &
wait
echo ALLDONE >> .build/logs/summary-final.txt
