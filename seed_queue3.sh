#!/bin/bash
cd /verif
run() { ./seed_eval.sh /verif/seeded/$1 "${@:2}"; }
run V1-1 C01:drv::
run V1-2 C01:drv::
run V1-3 C07:drv::
run V1-4 C07:drv::
run V2-1 C02:drv:: C05:drv::
run V2-2 C02:drv:: C05:drv::
run V2-3 C02:drv:: C05:drv::
run V2-4 C02:drv:: C05:drv::
echo ALLDONE3 >> .build/logs/seed-summary.txt
