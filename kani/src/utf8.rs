//! L5 — the byte-slice entry points must accept well-formed UTF-8 only
//! (C01) and report ill-formed input at the first ill-formed sequence unless a
//! syntax error lies strictly before it (C07).
//!
//! Driven through the smallest unit that goes through the byte-slice path,
//! `<() as Parse>::parse_slice` (`null`) and `bool::parse_slice`, on fully
//! symbolic bytes. Reference: Unicode Table 3-7 (well-formed UTF-8 byte
//! sequences), written out.
use json_syntax::parse::Error;
use json_syntax::Parse;

fn cont(b: u8) -> bool {
	b & 0xC0 == 0x80
}

/// Scalar value and length of the well-formed sequence at the start of `b`.
pub fn ref_utf8(b: &[u8]) -> Option<(u32, usize)> {
	let n = b.len();
	if n == 0 {
		return None;
	}
	let b0 = b[0];
	if b0 < 0x80 {
		return Some((b0 as u32, 1));
	}
	if (0xC2..=0xDF).contains(&b0) {
		if n >= 2 && cont(b[1]) {
			return Some((((b0 as u32 & 0x1F) << 6) | (b[1] as u32 & 0x3F), 2));
		}
		return None;
	}
	if (0xE0..=0xEF).contains(&b0) {
		if n < 3 || !cont(b[1]) || !cont(b[2]) {
			return None;
		}
		if b0 == 0xE0 && b[1] < 0xA0 {
			return None; // overlong
		}
		if b0 == 0xED && b[1] > 0x9F {
			return None; // surrogate
		}
		return Some((((b0 as u32 & 0x0F) << 12) | ((b[1] as u32 & 0x3F) << 6) | (b[2] as u32 & 0x3F), 3));
	}
	if (0xF0..=0xF4).contains(&b0) {
		if n < 4 || !cont(b[1]) || !cont(b[2]) || !cont(b[3]) {
			return None;
		}
		if b0 == 0xF0 && b[1] < 0x90 {
			return None; // overlong
		}
		if b0 == 0xF4 && b[1] > 0x8F {
			return None; // above U+10FFFF
		}
		return Some((
			((b0 as u32 & 0x07) << 18) | ((b[1] as u32 & 0x3F) << 12) | ((b[2] as u32 & 0x3F) << 6) | (b[3] as u32 & 0x3F),
			4,
		));
	}
	None // C0, C1, F5..FF, stray continuation byte
}

#[derive(PartialEq, Eq, Clone, Copy)]
pub enum Want {
	Ok,
	Unexpected(usize, Option<u32>),
	InvalidUtf8(usize),
}

/// Reference verdict of parsing the literal `lit` from the bytes `b`.
pub fn ref_literal_bytes(b: &[u8], lit: &[u8]) -> Want {
	let mut i = 0;
	while i < lit.len() {
		if i >= b.len() {
			return Want::Unexpected(b.len(), None);
		}
		match ref_utf8(&b[i..]) {
			None => return Want::InvalidUtf8(i),
			Some((c, _)) => {
				if c != lit[i] as u32 {
					return Want::Unexpected(i, Some(c));
				}
			}
		}
		i += 1;
	}
	Want::Ok
}

fn agrees<T>(r: &Result<T, Error>, want: Want) -> (bool, bool) {
	// (verdict agrees, error detail agrees)
	match (r, want) {
		(Ok(_), Want::Ok) => (true, true),
		(Err(Error::Unexpected(p, c)), Want::Unexpected(wp, wc)) => (true, *p == wp && c.map(|c| c as u32) == wc),
		(Err(Error::InvalidUtf8(p)), Want::InvalidUtf8(wp)) => (true, *p == wp),
		(Err(_), Want::Ok) | (Ok(_), _) => (false, false),
		(Err(_), _) => (true, false),
	}
}

macro_rules! l5_null {
	($name:ident, $n:expr) => {
		#[cfg(kani)]
		#[kani::proof]
		#[kani::unwind(7)]
		fn $name() {
			const N: usize = $n;
			let backing: [u8; 6] = [kani::any(), kani::any(), kani::any(), kani::any(), kani::any(), kani::any()];
			let b = &backing[..N];
			let want = ref_literal_bytes(b, b"null");
			let r = <() as Parse>::parse_slice(b);
			let (verdict, detail) = agrees(&r, want);
			assert!(verdict, "C01:byte-slice-input-accepted-iff-well-formed-utf8-and-valid");
			assert!(detail, "C07:ill-formed-utf8-reported-at-first-ill-formed-sequence-unless-syntax-error-before");
			kani::cover!(N < 4 || want == Want::Ok);
			kani::cover!(matches!(want, Want::InvalidUtf8(p) if p + 1 == N.min(4)));
			kani::cover!(N < 2 || matches!(want, Want::Unexpected(p, Some(c)) if p > 0 && c > 0x7F));
			core::mem::forget(r);
		}
	};
}

l5_null!(l5_null_slice_n1, 1);
l5_null!(l5_null_slice_n2, 2);
l5_null!(l5_null_slice_n3, 3);
l5_null!(l5_null_slice_n4, 4);
l5_null!(l5_null_slice_n5, 5);

#[cfg(test)]
mod tests {
	use super::*;

	/// The reference decoder agrees with core::str::from_utf8 on every 1- and
	/// 2-byte input and on a sweep of 3-/4-byte inputs.
	#[test]
	fn reference_utf8_matches_core() {
		let check = |b: &[u8]| {
			let want = match core::str::from_utf8(b) {
				Ok(s) => s.chars().next().map(|c| (c as u32, c.len_utf8())),
				Err(e) if e.valid_up_to() > 0 => {
					let s = core::str::from_utf8(&b[..e.valid_up_to()]).unwrap();
					s.chars().next().map(|c| (c as u32, c.len_utf8()))
				}
				Err(_) => None,
			};
			assert_eq!(ref_utf8(b), want, "{:x?}", b);
		};
		for a in 0..=255u8 {
			check(&[a]);
			for b in 0..=255u8 {
				check(&[a, b]);
			}
		}
		for a in 0xC0..=255u8 {
			for b in (0..=255u8).step_by(3) {
				for c in (0..=255u8).step_by(5) {
					check(&[a, b, c]);
					for d in [0x00, 0x7F, 0x80, 0x8F, 0x90, 0xBF, 0xC0, 0xFF] {
						check(&[a, b, c, d]);
					}
				}
			}
		}
	}

	#[test]
	fn overlong_lifting() {
		// public-API form of the solver's decoder counter-example
		assert!(matches!(ref_literal_bytes(b"n\xC1\xB5ll", b"null"), Want::InvalidUtf8(1)));
	}
}
