//! L5 — the byte-slice entry points must accept well-formed UTF-8 only
//! (C01) and report ill-formed input at the first ill-formed sequence unless a
//! syntax error lies strictly before it (C07).
//!
//! Driven through the smallest unit that goes through the byte-slice path,
//! `<() as Parse>::parse_slice` (`null`) and `bool::parse_slice`, on fully
//! symbolic bytes. Reference: Unicode Table 3-7 (well-formed UTF-8 byte
//! sequences), written out.
use json_syntax::parse::Error;
use json_syntax::Parse;

fn cont(b: u8) -> bool {
	b & 0xC0 == 0x80
}

/// Scalar value and length of the well-formed sequence at the start of `b`.
pub fn ref_utf8(b: &[u8]) -> Option<(u32, usize)> {
	let n = b.len();
	if n == 0 {
		return None;
	}
	let b0 = b[0];
	if b0 < 0x80 {
		return Some((b0 as u32, 1));
	}
	if (0xC2..=0xDF).contains(&b0) {
		if n >= 2 && cont(b[1]) {
			return Some((((b0 as u32 & 0x1F) << 6) | (b[1] as u32 & 0x3F), 2));
		}
		return None;
	}
	if (0xE0..=0xEF).contains(&b0) {
		if n < 3 || !cont(b[1]) || !cont(b[2]) {
			return None;
		}
		if b0 == 0xE0 && b[1] < 0xA0 {
			return None; // overlong
		}
		if b0 == 0xED && b[1] > 0x9F {
			return None; // surrogate
		}
		return Some((((b0 as u32 & 0x0F) << 12) | ((b[1] as u32 & 0x3F) << 6) | (b[2] as u32 & 0x3F), 3));
	}
	if (0xF0..=0xF4).contains(&b0) {
		if n < 4 || !cont(b[1]) || !cont(b[2]) || !cont(b[3]) {
			return None;
		}
		if b0 == 0xF0 && b[1] < 0x90 {
			return None; // overlong
		}
		if b0 == 0xF4 && b[1] > 0x8F {
			return None; // above U+10FFFF
		}
		return Some((
			((b0 as u32 & 0x07) << 18) | ((b[1] as u32 & 0x3F) << 12) | ((b[2] as u32 & 0x3F) << 6) | (b[3] as u32 & 0x3F),
			4,
		));
	}
	None // C0, C1, F5..FF, stray continuation byte
}

#[derive(PartialEq, Eq, Clone, Copy)]
pub enum Want {
	Ok,
	Unexpected(usize, Option<u32>),
	InvalidUtf8(usize),
}

/// Reference verdict of parsing the literal `lit` from the bytes `b`.
pub fn ref_literal_bytes(b: &[u8], lit: &[u8]) -> Want {
	let mut i = 0;
	while i < lit.len() {
		if i >= b.len() {
			return Want::Unexpected(b.len(), None);
		}
		match ref_utf8(&b[i..]) {
			None => return Want::InvalidUtf8(i),
			Some((c, _)) => {
				if c != lit[i] as u32 {
					return Want::Unexpected(i, Some(c));
				}
			}
		}
		i += 1;
	}
	Want::Ok
}

fn agrees<T>(r: &Result<T, Error>, want: Want) -> (bool, bool) {
	// (verdict agrees, error detail agrees)
	match (r, want) {
		(Ok(_), Want::Ok) => (true, true),
		(Err(Error::Unexpected(p, c)), Want::Unexpected(wp, wc)) => (true, *p == wp && c.map(|c| c as u32) == wc),
		(Err(Error::InvalidUtf8(p)), Want::InvalidUtf8(wp)) => (true, *p == wp),
		(Err(_), Want::Ok) | (Ok(_), _) => (false, false),
		(Err(_), _) => (true, false),
	}
}

macro_rules! l5_null {
	($name:ident, $n:expr) => {
		l5_null!($name, $n, false);
	};
	($name:ident, $n:expr, $with:expr) => {
		#[cfg(kani)]
		#[kani::proof]
		#[kani::unwind(7)]
		fn $name() {
			const N: usize = $n;
			let backing: [u8; 6] = [kani::any(), kani::any(), kani::any(), kani::any(), kani::any(), kani::any()];
			let b = &backing[..N];
			let want = ref_literal_bytes(b, b"null");
			// both byte-slice entry points: `parse_slice` and `parse_slice_with` under
			// every option value (the options only concern \u escapes, absent here)
			let r = if $with {
				<() as Parse>::parse_slice_with(
					b,
					json_syntax::parse::Options {
						accept_truncated_surrogate_pair: kani::any(),
						accept_invalid_codepoints: kani::any(),
					},
				)
			} else {
				<() as Parse>::parse_slice(b)
			};
			let (verdict, detail) = agrees(&r, want);
			assert!(verdict, "C01:byte-slice-input-accepted-iff-well-formed-utf8-and-valid");
			assert!(detail, "C07:ill-formed-utf8-reported-at-first-ill-formed-sequence-unless-syntax-error-before");
			kani::cover!(N < 4 || want == Want::Ok);
			kani::cover!(matches!(want, Want::InvalidUtf8(p) if p + 1 == N.min(4)));
			kani::cover!(N < 3 || matches!(want, Want::Unexpected(p, Some(c)) if p > 0 && c > 0x7F));
			core::mem::forget(r);
		}
	};
}

l5_null!(l5_null_slice_n1, 1);
l5_null!(l5_null_slice_n2, 2);
l5_null!(l5_null_slice_n3, 3);
l5_null!(l5_null_slice_n4, 4);
l5_null!(l5_null_slice_n5, 5);
l5_null!(l5_null_slice_with_n2, 2, true);
l5_null!(l5_null_slice_with_n3, 3, true);
l5_null!(l5_null_slice_with_n4, 4, true);
l5_null!(l5_null_slice_with_n5, 5, true);

/// Every non-slice entry point of the `Parse` trait (string, character
/// iterators with and without errors, decoded-character iterators, each with
/// and without explicit options) gives the verdict, error and code map of the
/// reference on the same ASCII text. The byte-slice entry points are the
/// l5_* harnesses above. `FromStr for Value` goes through whole-document
/// parsing and is outside the reach of this technique.
macro_rules! ep_null {
	($name:ident, $n:expr, $which:expr) => {
		#[cfg(kani)]
		#[kani::proof]
		#[kani::unwind(7)]
		fn $name() {
			use decoded_char::DecodedChar;
			use json_syntax::parse::Options;
			const N: usize = $n;
			let backing: [u8; 6] = [kani::any(), kani::any(), kani::any(), kani::any(), kani::any(), kani::any()];
			kani::assume(backing[0] < 0x80 && backing[1] < 0x80 && backing[2] < 0x80 && backing[3] < 0x80 && backing[4] < 0x80 && backing[5] < 0x80);
			let b = &backing[..N];
			let want = ref_literal_bytes(b, b"null");
			let o = Options {
				accept_truncated_surrogate_pair: kani::any(),
				accept_invalid_codepoints: kani::any(),
			};
			// ASCII only: valid UTF-8 by construction
			let s = unsafe { core::str::from_utf8_unchecked(b) };
			let chars = || b.iter().map(|x| *x as char);
			let r: Result<((), json_syntax::CodeMap), Error> = match $which {
				0 => <() as Parse>::parse_str(s),
				1 => <() as Parse>::parse_str_with(s, o),
				2 => <() as Parse>::parse_infallible_utf8(chars()),
				3 => <() as Parse>::parse_utf8_infallible_with(chars(), o),
				4 => <() as Parse>::parse_utf8(chars().map(Ok::<char, core::convert::Infallible>)),
				5 => <() as Parse>::parse_utf8_with(chars().map(Ok::<char, core::convert::Infallible>), o),
				6 => <() as Parse>::parse_infallible(chars().map(DecodedChar::from_utf8)),
				7 => <() as Parse>::parse_infallible_with(chars().map(DecodedChar::from_utf8), o),
				8 => <() as Parse>::parse(chars().map(|c| Ok::<DecodedChar, core::convert::Infallible>(DecodedChar::from_utf8(c)))),
				_ => <() as Parse>::parse_with(chars().map(|c| Ok::<DecodedChar, core::convert::Infallible>(DecodedChar::from_utf8(c))), o),
			};
			let (verdict, detail) = agrees(&r, want);
			assert!(verdict, "C01:all-entry-points-give-the-same-verdict");
			assert!(detail, "C07:all-entry-points-report-the-same-error");
			if let Ok(((), cm)) = &r {
				let e = cm.as_slice();
				assert!(e.len() == 1 && e[0].span.start() == 0 && e[0].span.end() == 4 && e[0].volume == 1, "C05:scalar-span-and-volume");
			}
			kani::cover!(N < 4 || want == Want::Ok);
			kani::cover!(N < 1 || matches!(want, Want::Unexpected(p, Some(_)) if p + 1 == N.min(4)));
			core::mem::forget(r);
		}
	};
}

ep_null!(ep_null_parse_str, 5, 0);
ep_null!(ep_null_parse_str_with, 5, 1);
ep_null!(ep_null_parse_infallible_utf8, 5, 2);
ep_null!(ep_null_parse_utf8_infallible_with, 5, 3);
ep_null!(ep_null_parse_utf8, 5, 4);
ep_null!(ep_null_parse_utf8_with, 5, 5);
ep_null!(ep_null_parse_infallible, 5, 6);
ep_null!(ep_null_parse_infallible_with, 5, 7);
ep_null!(ep_null_parse, 5, 8);
ep_null!(ep_null_parse_with, 5, 9);

#[cfg(test)]
mod tests {
	use super::*;

	/// The reference decoder agrees with core::str::from_utf8 on every 1- and
	/// 2-byte input and on a sweep of 3-/4-byte inputs.
	#[test]
	fn reference_utf8_matches_core() {
		let check = |b: &[u8]| {
			let want = match core::str::from_utf8(b) {
				Ok(s) => s.chars().next().map(|c| (c as u32, c.len_utf8())),
				Err(e) if e.valid_up_to() > 0 => {
					let s = core::str::from_utf8(&b[..e.valid_up_to()]).unwrap();
					s.chars().next().map(|c| (c as u32, c.len_utf8()))
				}
				Err(_) => None,
			};
			assert_eq!(ref_utf8(b), want, "{:x?}", b);
		};
		for a in 0..=255u8 {
			check(&[a]);
			for b in 0..=255u8 {
				check(&[a, b]);
			}
		}
		for a in 0xC0..=255u8 {
			for b in (0..=255u8).step_by(3) {
				for c in (0..=255u8).step_by(5) {
					check(&[a, b, c]);
					for d in [0x00, 0x7F, 0x80, 0x8F, 0x90, 0xBF, 0xC0, 0xFF] {
						check(&[a, b, c, d]);
					}
				}
			}
		}
	}

	#[test]
	fn overlong_lifting() {
		// public-API form of the solver's decoder counter-example
		assert!(matches!(ref_literal_bytes(b"n\xC1\xB5ll", b"null"), Want::InvalidUtf8(1)));
	}
}
