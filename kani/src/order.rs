//! C14 — equality, ordering and hashing are coherent (laws on stack values),
//! and the pre-fix form of the C09 member-order check.
//!
//! Values are held on the stack (scalars; `[Value; 2]` slices compared through
//! the slice impls `Vec<Value>` derefs to; `Entry`; `[Entry; 2]` slices, the
//! code `Object`'s `==`/`cmp`/`hash` deref to). Harness assertions never
//! recurse over heap values.
use crate::util::Sink;
use core::cmp::Ordering;
use core::hash::{Hash, Hasher};
use json_syntax::object::{Entry, Key};
use json_syntax::{NumberBuf, Value};

/// Records everything written to it (no mixing function: equal records are
/// what `a == b => hash(a) == hash(b)` needs for every `Hasher`).
pub struct Recorder(pub Sink<12>);

impl Hasher for Recorder {
	fn write(&mut self, bytes: &[u8]) {
		// length prefix: distinguishes write(ab) from write(a); write(b)
		self.0.push(bytes.len() as u8);
		let mut i = 0;
		while i < bytes.len() {
			self.0.push(bytes[i]);
			i += 1;
		}
	}

	fn finish(&self) -> u64 {
		0
	}
}

pub fn record<T: Hash + ?Sized>(v: &T) -> Sink<12> {
	let mut r = Recorder(Sink::new());
	v.hash(&mut r);
	r.0
}

#[cfg(kani)]
pub fn sym_string(max_chars: usize) -> json_syntax::String {
	let mut s = json_syntax::String::new();
	let n: usize = kani::any();
	kani::assume(n <= max_chars);
	let mut i = 0;
	while i < max_chars {
		if i < n {
			s.push(kani::any::<char>());
		}
		i += 1;
	}
	s
}

pub const SPELLINGS: [&[u8]; 6] = [b"0", b"1", b"-1", b"1.0", b"1e1", b"10"];

#[cfg(kani)]
pub fn sym_number() -> NumberBuf {
	let k: usize = kani::any();
	kani::assume(k < 6);
	unsafe { NumberBuf::new_unchecked(smallvec::SmallVec::from_slice(SPELLINGS[k])) }
}

#[cfg(kani)]
pub fn sym_scalar(max_chars: usize) -> Value {
	let t: u8 = kani::any();
	match t {
		0 => Value::Null,
		1 => Value::Boolean(kani::any()),
		2 => Value::Number(sym_number()),
		_ => Value::String(sym_string(max_chars)),
	}
}

pub fn laws<T: Ord + Hash + ?Sized>(a: &T, b: &T, c: &T) {
	// equality is an equivalence
	assert!(a == a, "C14:eq-reflexive");
	assert!((a == b) == (b == a), "C14:eq-symmetric");
	if a == b && b == c {
		assert!(a == c, "C14:eq-transitive");
	}
	// ordering is total and consistent with equality
	let ab = a.cmp(b);
	let ba = b.cmp(a);
	let bc = b.cmp(c);
	let ac = a.cmp(c);
	assert!(a.cmp(a) == Ordering::Equal, "C14:cmp-reflexive");
	assert!(ab == ba.reverse(), "C14:cmp-antisymmetric");
	if ab != Ordering::Greater && bc != Ordering::Greater {
		assert!(ac != Ordering::Greater, "C14:cmp-transitive");
	}
	if ab == Ordering::Less && bc != Ordering::Greater {
		assert!(ac == Ordering::Less, "C14:cmp-transitive");
	}
	assert!((ab == Ordering::Equal) == (a == b), "C14:cmp-equal-exactly-when-eq");
	assert!(a.partial_cmp(b) == Some(ab), "C14:partial-cmp-agrees-with-cmp");
	assert!((a < b) == (ab == Ordering::Less) && (a >= b) == (ab != Ordering::Less), "C14:operators-agree-with-cmp");
	// hashing depends on content only
	if a == b {
		assert!(record(a).same_as(&record(b)), "C14:equal-values-hash-identically");
	}
}

#[cfg(kani)]
#[kani::proof]
#[kani::unwind(10)]
#[kani::stub(smallvec::SmallVec::try_grow, crate::util::no_grow)]
fn c14_laws_scalars() {
	let a = sym_scalar(2);
	let b = sym_scalar(2);
	let c = sym_scalar(2);
	laws(&a, &b, &c);
	kani::cover!(a == b && matches!(a, Value::String(_)));
	kani::cover!(a < b && b < c);
	kani::cover!(matches!((&a, &b), (Value::Number(_), Value::String(_))));
	core::mem::forget((a, b, c));
}

#[cfg(kani)]
#[kani::proof]
#[kani::unwind(10)]
#[kani::stub(smallvec::SmallVec::try_grow, crate::util::no_grow)]
fn c14_laws_value_slices() {
	let a = [sym_scalar(1), sym_scalar(1)];
	let b = [sym_scalar(1), sym_scalar(1)];
	let c = [sym_scalar(1), sym_scalar(1)];
	let la: usize = kani::any();
	let lb: usize = kani::any();
	let lc: usize = kani::any();
	kani::assume(la <= 2 && lb <= 2 && lc <= 2);
	laws::<[Value]>(&a[..la], &b[..lb], &c[..lc]);
	kani::cover!(la == 2 && lb == 2 && a[0] == b[0] && a[1] != b[1]);
	kani::cover!(la == 1 && lb == 2 && a[0] == b[0]);
	core::mem::forget((a, b, c));
}

#[cfg(kani)]
fn sym_entry(max_chars: usize) -> Entry {
	let key: Key = sym_string(max_chars);
	let t: u8 = kani::any();
	let value = match t {
		0 => Value::Null,
		1 => Value::Boolean(kani::any()),
		_ => Value::Number(sym_number()),
	};
	Entry::new(key, value)
}

#[cfg(kani)]
#[kani::proof]
#[kani::unwind(10)]
#[kani::stub(smallvec::SmallVec::try_grow, crate::util::no_grow)]
fn c14_laws_entries() {
	let a = sym_entry(2);
	let b = sym_entry(2);
	let c = sym_entry(2);
	laws(&a, &b, &c);
	kani::cover!(a.key == b.key && a.value != b.value);
	kani::cover!(a == b);
	core::mem::forget((a, b, c));
}

#[cfg(kani)]
#[kani::proof]
#[kani::unwind(10)]
#[kani::stub(smallvec::SmallVec::try_grow, crate::util::no_grow)]
fn c14_laws_entry_slices() {
	let a = [sym_entry(1), sym_entry(1)];
	let b = [sym_entry(1), sym_entry(1)];
	let c = [sym_entry(1), sym_entry(1)];
	let la: usize = kani::any();
	let lb: usize = kani::any();
	kani::assume(la <= 2 && lb <= 2);
	laws::<[Entry]>(&a[..la], &b[..lb], &c[..2]);
	kani::cover!(la == 2 && lb == 2 && a[0] == b[0] && a[1] != b[1]);
	core::mem::forget((a, b, c));
}

pub use crate::util::{ref_utf16_cmp, utf16_units};

#[cfg(test)]
mod tests {
	use super::*;

	#[test]
	fn reference_utf16_order_matches_encode_utf16() {
		let samples = ['\0', 'a', 'b', '\u{7f}', '\u{80}', '\u{7ff}', '\u{800}', '\u{d7ff}', '\u{e000}', '\u{ffff}', '\u{10000}', '\u{10ffff}', '\u{1F600}'];
		let mut strs: Vec<Vec<char>> = vec![vec![]];
		for &a in &samples {
			strs.push(vec![a]);
			for &b in &samples {
				strs.push(vec![a, b]);
			}
		}
		for a in &strs {
			for b in &strs {
				let sa: String = a.iter().collect();
				let sb: String = b.iter().collect();
				assert_eq!(ref_utf16_cmp(a, b), sa.encode_utf16().cmp(sb.encode_utf16()), "{:?} {:?}", a, b);
			}
		}
	}

	#[test]
	fn recorder_separates_writes() {
		assert!(!record(&("ab", "c")).same_as(&record(&("a", "bc"))));
		assert!(record(&("ab", "c")).same_as(&record(&("ab", "c"))));
	}
}
