//! C14 — equality, ordering and hashing are coherent (laws on stack values),
//! and the pre-fix form of the C09 member-order check.
//!
//! Values are held on the stack (scalars; `[Value; 2]` slices compared through
//! the slice impls `Vec<Value>` derefs to; `Entry`; `[Entry; 2]` slices, the
//! code `Object`'s `==`/`cmp`/`hash` deref to). Harness assertions never
//! recurse over heap values.
use crate::util::Sink;
use core::cmp::Ordering;
use core::hash::{Hash, Hasher};
use json_syntax::object::{Entry, Key};
use json_syntax::{NumberBuf, Value};

/// Records everything written to it (no mixing function: equal records are
/// what `a == b => hash(a) == hash(b)` needs for every `Hasher`).
pub struct Recorder(pub Sink<12>);

impl Hasher for Recorder {
	fn write(&mut self, bytes: &[u8]) {
		// length prefix: distinguishes write(ab) from write(a); write(b)
		self.0.push(bytes.len() as u8);
		let mut i = 0;
		while i < bytes.len() {
			self.0.push(bytes[i]);
			i += 1;
		}
	}

	fn finish(&self) -> u64 {
		0
	}
}

pub fn record<T: Hash + ?Sized>(v: &T) -> Sink<12> {
	let mut r = Recorder(Sink::new());
	v.hash(&mut r);
	r.0
}

#[cfg(kani)]
pub fn sym_string(max_chars: usize) -> json_syntax::String {
	let mut s = json_syntax::String::new();
	let n: usize = kani::any();
	kani::assume(n <= max_chars);
	let mut i = 0;
	while i < max_chars {
		if i < n {
			s.push(kani::any::<char>());
		}
		i += 1;
	}
	s
}

pub const SPELLINGS: [&[u8]; 6] = [b"0", b"1", b"-1", b"1.0", b"1e1", b"10"];

#[cfg(kani)]
pub fn sym_number() -> NumberBuf {
	let k: usize = kani::any();
	kani::assume(k < 6);
	unsafe { NumberBuf::new_unchecked(crate::util::number_bytes(SPELLINGS[k])) }
}

/// A scalar of a CONCRETE variant (`kind`: n null, b boolean, # number, $ string) with a
/// symbolic payload. (A symbolic variant makes CBMC unwind the derived, recursive
/// `Value::eq`/`cmp`/`hash` through all six variants at every comparison: the law harnesses
/// built that way did not finish in 40 min; the variant combinations are instances instead.)
#[cfg(kani)]
pub fn sym_scalar(kind: u8, max_chars: usize) -> Value {
	match kind {
		b'n' => Value::Null,
		b'b' => Value::Boolean(kani::any()),
		b'#' => Value::Number(sym_number()),
		_ => Value::String(sym_string(max_chars)),
	}
}

pub fn laws<T: Ord + Hash + ?Sized>(a: &T, b: &T, c: &T) {
	// equality is an equivalence
	assert!(a == a, "C14:eq-reflexive");
	assert!((a == b) == (b == a), "C14:eq-symmetric");
	if a == b && b == c {
		assert!(a == c, "C14:eq-transitive");
	}
	// ordering is total and consistent with equality
	let ab = a.cmp(b);
	let ba = b.cmp(a);
	let bc = b.cmp(c);
	let ac = a.cmp(c);
	assert!(a.cmp(a) == Ordering::Equal, "C14:cmp-reflexive");
	assert!(ab == ba.reverse(), "C14:cmp-antisymmetric");
	if ab != Ordering::Greater && bc != Ordering::Greater {
		assert!(ac != Ordering::Greater, "C14:cmp-transitive");
	}
	if ab == Ordering::Less && bc != Ordering::Greater {
		assert!(ac == Ordering::Less, "C14:cmp-transitive");
	}
	assert!((ab == Ordering::Equal) == (a == b), "C14:cmp-equal-exactly-when-eq");
	assert!(a.partial_cmp(b) == Some(ab), "C14:partial-cmp-agrees-with-cmp");
	assert!((a < b) == (ab == Ordering::Less) && (a >= b) == (ab != Ordering::Less), "C14:operators-agree-with-cmp");
	// hashing depends on content only
	if a == b {
		assert!(record(a).same_as(&record(b)), "C14:equal-values-hash-identically");
	}
}

macro_rules! c14_scalars {
	($name:ident, $k:expr) => {
		#[cfg(kani)]
		#[kani::proof]
		#[kani::unwind(10)]
		#[kani::stub(smallvec::SmallVec::try_grow, crate::util::no_grow)]
		fn $name() {
			const K: &[u8; 3] = $k;
			let a = sym_scalar(K[0], 2);
			let b = sym_scalar(K[1], 2);
			let c = sym_scalar(K[2], 2);
			laws(&a, &b, &c);
			kani::cover!(K[0] != K[1] || a == b);
			kani::cover!(a != c || K[0] == b'n');
			core::mem::forget((a, b, c));
		}
	};
}

c14_scalars!(c14_laws_scalars_bbb, b"bbb");
c14_scalars!(c14_laws_scalars_nums, b"###");
c14_scalars!(c14_laws_scalars_strs, b"$$$");
c14_scalars!(c14_laws_scalars_nbn, b"nbn");
c14_scalars!(c14_laws_scalars_bns, b"b#$");
c14_scalars!(c14_laws_scalars_snb, b"$#b");
c14_scalars!(c14_laws_scalars_nns, b"##$");

macro_rules! c14_value_slices {
	($name:ident, $ka:expr, $kb:expr, $kc:expr, $la:expr, $lb:expr, $lc:expr) => {
		#[cfg(kani)]
		#[kani::proof]
		#[kani::unwind(10)]
		#[kani::stub(smallvec::SmallVec::try_grow, crate::util::no_grow)]
		fn $name() {
			// lengths concrete per instance (symbolic lengths: 25 min, not finished)
			let a = [sym_scalar($ka[0], 1), sym_scalar($ka[1], 1)];
			let b = [sym_scalar($kb[0], 1), sym_scalar($kb[1], 1)];
			let c = [sym_scalar($kc[0], 1), sym_scalar($kc[1], 1)];
			laws::<[Value]>(&a[..$la], &b[..$lb], &c[..$lc]);
			kani::cover!(a[0] == b[0]);
			kani::cover!(a[0] != b[0] || $ka[0] == b'n');
			core::mem::forget((a, b, c));
		}
	};
}

c14_value_slices!(c14_laws_value_slices_bools, b"bb", b"bb", b"bb", 2, 2, 2);
c14_value_slices!(c14_laws_value_slices_prefix, b"bb", b"bb", b"bb", 1, 2, 0);
c14_value_slices!(c14_laws_value_slices_mixed, b"b#", b"b$", b"n#", 2, 2, 2);

#[cfg(kani)]
fn sym_entry(kind: u8, max_chars: usize) -> Entry {
	let key: Key = sym_string(max_chars);
	Entry::new(key, sym_scalar(kind, 0))
}

macro_rules! c14_entries {
	($name:ident, $k:expr) => {
		#[cfg(kani)]
		#[kani::proof]
		#[kani::unwind(10)]
		#[kani::stub(smallvec::SmallVec::try_grow, crate::util::no_grow)]
		fn $name() {
			const K: &[u8; 3] = $k;
			let a = sym_entry(K[0], 2);
			let b = sym_entry(K[1], 2);
			let c = sym_entry(K[2], 2);
			laws(&a, &b, &c);
			kani::cover!(a.key == b.key);
			kani::cover!(a.key != b.key);
			core::mem::forget((a, b, c));
		}
	};
}

c14_entries!(c14_laws_entries_bbb, b"bbb");
c14_entries!(c14_laws_entries_nums, b"###");
c14_entries!(c14_laws_entries_mixed, b"nb#");

macro_rules! c14_entry_slices {
	($name:ident, $ka:expr, $kb:expr, $la:expr, $lb:expr) => {
		#[cfg(kani)]
		#[kani::proof]
		#[kani::unwind(10)]
		#[kani::stub(smallvec::SmallVec::try_grow, crate::util::no_grow)]
		fn $name() {
			let a = [sym_entry($ka[0], 1), sym_entry($ka[1], 1)];
			let b = [sym_entry($kb[0], 1), sym_entry($kb[1], 1)];
			let c = [sym_entry($ka[1], 1), sym_entry($kb[0], 1)];
			laws::<[Entry]>(&a[..$la], &b[..$lb], &c[..2]);
			kani::cover!(a[0] == b[0]);
			kani::cover!(a[0].key != b[0].key);
			core::mem::forget((a, b, c));
		}
	};
}

c14_entry_slices!(c14_laws_entry_slices_bools, b"bb", b"bb", 2, 2);
c14_entry_slices!(c14_laws_entry_slices_prefix, b"b#", b"b#", 1, 2);

pub use crate::util::{ref_utf16_cmp, utf16_units};

#[cfg(test)]
mod tests {
	use super::*;

	#[test]
	fn reference_utf16_order_matches_encode_utf16() {
		let samples = ['\0', 'a', 'b', '\u{7f}', '\u{80}', '\u{7ff}', '\u{800}', '\u{d7ff}', '\u{e000}', '\u{ffff}', '\u{10000}', '\u{10ffff}', '\u{1F600}'];
		let mut strs: Vec<Vec<char>> = vec![vec![]];
		for &a in &samples {
			strs.push(vec![a]);
			for &b in &samples {
				strs.push(vec![a, b]);
			}
		}
		for a in &strs {
			for b in &strs {
				let sa: String = a.iter().collect();
				let sb: String = b.iter().collect();
				assert_eq!(ref_utf16_cmp(a, b), sa.encode_utf16().cmp(sb.encode_utf16()), "{:?} {:?}", a, b);
			}
		}
	}

	#[test]
	fn recorder_separates_writes() {
		assert!(!record(&("ab", "c")).same_as(&record(&("a", "bc"))));
		assert!(record(&("ab", "c")).same_as(&record(&("ab", "c"))));
	}
}
