//! External (public-API) Kani harnesses for json-syntax.
//! Built only by `cargo kani` (harnesses) and by the native replay tests.
#![allow(clippy::all)]

pub mod util;

#[cfg(any(kani, test))]
mod c20;
#[cfg(any(kani, test))]
mod print;
