//! External (public-API) Kani harnesses for json-syntax.
//! Built only by `cargo kani` (harnesses) and by the native replay tests.
#![allow(clippy::all)]

#[allow(dead_code)]
pub mod util;

#[cfg(any(kani, test))]
mod c20;
#[cfg(any(kani, test))]
mod print;
#[cfg(any(kani, test))]
mod utf8;
#[cfg(any(kani, test))]
mod order;
#[cfg(any(kani, test))]
mod frag;
