//! C13 (layout), C08 (compact output), printer half of C04.
//!
//! The layout rule is inductive over one container level: a container's
//! decision depends on its children only through each child's `Size`, and its
//! emission depends on them only through the text they emit and the number of
//! `sizes` slots they consume. `pre_compute_array_size`, `pre_compute_object_size`,
//! `print_array` and `print_object` are public generic functions, so one level
//! is verified here for *arbitrary children*: a harness item type returns a
//! symbolic `Size` / writes a symbolic byte and consumes a symbolic number of
//! slots. Instantiations verified: `I = core::slice::Iter<'_, Item>` (arrays)
//! and `I = Map<slice::Iter<(&str, Item)>, _>` (objects); `Value`/`Object` use
//! `&Vec<Value>` and `Map<slice::Iter<Entry>, _>` over the same source.
#![allow(dead_code)]

use crate::util::Sink;
use core::cell::Cell;
use core::fmt::{self, Write};
use json_syntax::print::{
	pre_compute_array_size, pre_compute_object_size, print_array, print_object, printed_string_size,
	string_literal, Indent, Limit, Options, PrecomputeSize, PrintWithSize, Size,
};

// ---------------------------------------------------------------------------
// reference escaping (RFC 8785 §3.2.2.2), written from the RFC

pub fn ref_escape<const W: usize>(c: char, out: &mut Sink<W>) {
	let u = c as u32;
	match u {
		0x22 => out.push_all(b"\\\""),
		0x5C => out.push_all(b"\\\\"),
		0x08 => out.push_all(b"\\b"),
		0x09 => out.push_all(b"\\t"),
		0x0A => out.push_all(b"\\n"),
		0x0C => out.push_all(b"\\f"),
		0x0D => out.push_all(b"\\r"),
		_ if u < 0x20 => {
			out.push_all(b"\\u00");
			out.push(HEX[(u >> 4) as usize]);
			out.push(HEX[(u & 15) as usize]);
		}
		_ => out.push_char(c),
	}
}

const HEX: [u8; 16] = *b"0123456789abcdef";

/// Number of characters the reference escaping of `c` prints.
pub fn ref_escape_width(c: char) -> usize {
	let u = c as u32;
	match u {
		0x22 | 0x5C | 0x08 | 0x09 | 0x0A | 0x0C | 0x0D => 2,
		_ if u < 0x20 => 6,
		_ => 1,
	}
}

pub fn ref_string_literal<const W: usize>(chars: &[char], out: &mut Sink<W>) {
	out.push(b'"');
	let mut i = 0;
	while i < chars.len() {
		ref_escape(chars[i], out);
		i += 1;
	}
	out.push(b'"');
}

struct Lit<'a>(&'a str);

impl<'a> fmt::Display for Lit<'a> {
	fn fmt(&self, f: &mut fmt::Formatter) -> fmt::Result {
		string_literal(self.0, f)
	}
}

// ---------------------------------------------------------------------------
// symbolic option records

#[cfg(kani)]
fn any_le(max: usize) -> usize {
	let x: usize = kani::any();
	kani::assume(x <= max);
	x
}

#[cfg(kani)]
fn sym_limit(max_item: usize, max_width: usize) -> Option<Limit> {
	let tag: u8 = kani::any();
	match tag {
		0 => None,
		1 => Some(Limit::Always),
		2 => Some(Limit::Item(any_le(max_item))),
		3 => Some(Limit::Width(any_le(max_width))),
		_ => Some(Limit::ItemOrWidth(any_le(max_item), any_le(max_width))),
	}
}

#[cfg(kani)]
fn sym_indent() -> Indent {
	if kani::any() {
		let n: u8 = kani::any();
		kani::assume(n <= 4);
		Indent::Spaces(n)
	} else {
		let n: u8 = kani::any();
		kani::assume(n <= 2);
		Indent::Tabs(n)
	}
}

/// Every field symbolic (the struct is `#[non_exhaustive]`: start from a
/// preset and overwrite every public field).
#[cfg(kani)]
pub fn sym_options(max_field: usize, max_item: usize, max_width: usize) -> Options {
	let mut o = Options::pretty();
	o.indent = sym_indent();
	o.array_begin = any_le(max_field);
	o.array_end = any_le(max_field);
	o.array_empty = any_le(max_field);
	o.array_before_comma = any_le(max_field);
	o.array_after_comma = any_le(max_field);
	o.array_limit = sym_limit(max_item, max_width);
	o.object_begin = any_le(max_field);
	o.object_end = any_le(max_field);
	o.object_empty = any_le(max_field);
	o.object_before_comma = any_le(max_field);
	o.object_after_comma = any_le(max_field);
	o.object_before_colon = any_le(max_field);
	o.object_after_colon = any_le(max_field);
	o.object_limit = sym_limit(max_item, max_width);
	o
}

// ---------------------------------------------------------------------------
// P1: size decision, one level, arbitrary children

/// A child standing for an arbitrary subtree: reports a symbolic size and
/// appends a symbolic number of slots to `sizes`.
pub struct Item {
	size: Size,
	pushes: usize,
}

impl PrecomputeSize for Item {
	fn pre_compute_size(&self, _options: &Options, sizes: &mut Vec<Size>) -> Size {
		let mut i = 0;
		while i < self.pushes {
			sizes.push(Size::Width(77));
			i += 1;
		}
		self.size
	}
}

/// Child `i` pushes a *concrete* number of slots ((i + 1) % 3: 1, 2, 0): the
/// slot arithmetic is exercised while the length of `sizes` stays concrete
/// (a symbolic Vec length makes CBMC explore the reallocation path at every
/// push: out of memory at 12 GB for k = 1).
#[cfg(kani)]
fn sym_item(i: usize) -> Item {
	let size = if kani::any() {
		Size::Expanded
	} else {
		Size::Width(any_le(1 << 12))
	};
	Item {
		size,
		pushes: (i + 1) % 3,
	}
}

fn width_of(s: Size) -> Option<usize> {
	match s {
		Size::Expanded => None,
		Size::Width(w) => Some(w),
	}
}

/// The documented rule: expanded iff a child is expanded or the limit trips
/// on the one-line form; `one_line` is the width actually printed.
fn ref_decision(one_line: Option<usize>, len: usize, limit: Option<Limit>) -> Option<usize> {
	match one_line {
		None => None,
		Some(width) => match limit {
			None => Some(width),
			Some(Limit::Always) => None,
			Some(Limit::Item(i)) => {
				if len > i {
					None
				} else {
					Some(width)
				}
			}
			Some(Limit::Width(w)) => {
				if width > w {
					None
				} else {
					Some(width)
				}
			}
			Some(Limit::ItemOrWidth(i, w)) => {
				if len > i || width > w {
					None
				} else {
					Some(width)
				}
			}
		},
	}
}

fn same_size(a: Size, b: Option<usize>) -> bool {
	width_of(a) == b
}

macro_rules! p1_array {
	($name:ident, $k:expr) => {
		#[cfg(kani)]
		#[kani::proof]
		#[kani::unwind(5)]
		fn $name() {
			const K: usize = $k;
			let o = sym_options(1 << 12, 8, 1 << 16);
			// backing array of 4, sliced to K: an empty `[Item; 0]` has a dangling
			// iterator whose emptiness CBMC cannot fold (k = 0 ran out of memory)
			let backing: [Item; 4] = core::array::from_fn(|i| sym_item(i));
			let items = &backing[..K];
			let pre = (K + 1) % 2;
			let mut sizes: Vec<Size> = Vec::with_capacity(12);
			let mut i = 0;
			while i < pre {
				sizes.push(Size::Width(55));
				i += 1;
			}
			let got = pre_compute_array_size(items.iter(), &o, &mut sizes);
			// reference
			let mut one_line = Some(2 + if K == 0 { o.array_empty } else { o.array_begin + o.array_end });
			let mut pushes = 0;
			let mut i = 0;
			while i < K {
				if i > 0 {
					one_line = one_line.map(|w| w + 1 + o.array_before_comma + o.array_after_comma);
				}
				one_line = match (one_line, width_of(items[i].size)) {
					(Some(a), Some(b)) => Some(a + b),
					_ => None,
				};
				pushes += items[i].pushes;
				i += 1;
			}
			let want = ref_decision(one_line, K, o.array_limit);
			if K == 0 {
				assert!(same_size(got, want), "C13:empty-array-width-uses-array_empty");
			} else {
				assert!(same_size(got, want), "C13:array-size-decision");
			}
			assert!(sizes.len() == pre + 1 + pushes, "C04+C13:array-sizes-slots");
			assert!(same_size(sizes[pre], want), "C13:array-size-recorded-at-own-slot");
			kani::cover!(want.is_none() && one_line.is_some());
			kani::cover!(want.is_some());
			kani::cover!(K == 0 || one_line.is_none());
			core::mem::forget(sizes);
		}
	};
}

p1_array!(c13_p1_array_k0, 0);
p1_array!(c13_p1_array_k1, 1);
p1_array!(c13_p1_array_k2, 2);
p1_array!(c13_p1_array_k3, 3);

macro_rules! p1_object {
	($name:ident, $k:expr) => {
		#[cfg(kani)]
		#[kani::proof]
		#[kani::unwind(5)]
		fn $name() {
			const K: usize = $k;
			let o = sym_options(1 << 12, 8, 1 << 16);
			let items: [Item; 4] = core::array::from_fn(|i| sym_item(i));
			let keys: [char; 4] = core::array::from_fn(|_| kani::any());
			let mut bufs = [[0u8; 4]; 4];
			let mut strs: [&str; 4] = [""; 4];
			let mut i = 0;
			for b in bufs.iter_mut() {
				strs[i] = keys[i].encode_utf8(b);
				i += 1;
			}
			let pre = (K + 1) % 2;
			let mut sizes: Vec<Size> = Vec::with_capacity(12);
			let mut i = 0;
			while i < pre {
				sizes.push(Size::Width(55));
				i += 1;
			}
			let idx: [usize; 4] = [0, 1, 2, 3];
			let got = pre_compute_object_size(idx[..K].iter().map(|i| (strs[*i], &items[*i])), &o, &mut sizes);
			// reference
			let mut one_line = Some(2 + if K == 0 { o.object_empty } else { o.object_begin + o.object_end });
			let mut pushes = 0;
			let mut i = 0;
			while i < K {
				if i > 0 {
					one_line = one_line.map(|w| w + 1 + o.object_before_comma + o.object_after_comma);
				}
				one_line = one_line
					.map(|w| w + 2 + ref_escape_width(keys[i]) + 1 + o.object_before_colon + o.object_after_colon);
				one_line = match (one_line, width_of(items[i].size)) {
					(Some(a), Some(b)) => Some(a + b),
					_ => None,
				};
				pushes += items[i].pushes;
				i += 1;
			}
			let want = ref_decision(one_line, K, o.object_limit);
			if K == 0 {
				assert!(same_size(got, want), "C13:empty-object-width-uses-object_empty");
			} else {
				assert!(same_size(got, want), "C13:object-size-decision");
			}
			assert!(sizes.len() == pre + 1 + pushes, "C04+C13:object-sizes-slots");
			assert!(same_size(sizes[pre], want), "C13:object-size-recorded-at-own-slot");
			kani::cover!(want.is_none() && one_line.is_some());
			kani::cover!(want.is_some());
			kani::cover!(K == 0 || one_line.is_none());
			core::mem::forget(sizes);
		}
	};
}

p1_object!(c13_p1_object_k0, 0);
p1_object!(c13_p1_object_k1, 1);
p1_object!(c13_p1_object_k2, 2);
p1_object!(c13_p1_object_k3, 3);

// ---------------------------------------------------------------------------
// P2: emission, one level, arbitrary children

/// A child standing for an arbitrary subtree: writes one symbolic ASCII byte
/// and consumes a symbolic number of `sizes` slots; records how it was called.
pub struct Child {
	byte: u8,
	consumes: usize,
	calls: Cell<u8>,
	seen_index: Cell<usize>,
	seen_indent: Cell<usize>,
}

impl PrintWithSize for Child {
	fn fmt_with_size(
		&self,
		f: &mut fmt::Formatter,
		_options: &Options,
		indent: usize,
		_sizes: &[Size],
		index: &mut usize,
	) -> fmt::Result {
		self.calls.set(self.calls.get() + 1);
		self.seen_index.set(*index);
		self.seen_indent.set(indent);
		*index += self.consumes;
		f.write_char(self.byte as char)
	}
}

#[cfg(kani)]
fn sym_child() -> Child {
	let byte: u8 = kani::any();
	kani::assume(byte < 0x80);
	Child {
		byte,
		consumes: any_le(2),
		calls: Cell::new(0),
		seen_index: Cell::new(0),
		seen_indent: Cell::new(0),
	}
}

struct PrintedArray<'a, const K: usize> {
	children: &'a [Child; 4],
	options: &'a Options,
	indent: usize,
	sizes: &'a [Size; 4],
	start: usize,
	end: &'a Cell<usize>,
}

impl<'a, const K: usize> fmt::Display for PrintedArray<'a, K> {
	fn fmt(&self, f: &mut fmt::Formatter) -> fmt::Result {
		let mut index = self.start;
		let r = print_array(self.children[..K].iter(), f, self.options, self.indent, self.sizes, &mut index);
		self.end.set(index);
		r
	}
}

struct PrintedObject<'a, const K: usize> {
	keys: &'a [&'a str; 4],
	children: &'a [Child; 4],
	options: &'a Options,
	indent: usize,
	sizes: &'a [Size; 4],
	start: usize,
	end: &'a Cell<usize>,
}

impl<'a, const K: usize> fmt::Display for PrintedObject<'a, K> {
	fn fmt(&self, f: &mut fmt::Formatter) -> fmt::Result {
		let mut index = self.start;
		let idx: [usize; 4] = [0, 1, 2, 3];
		let r = print_object(
			idx[..K].iter().map(|i| (self.keys[*i], &self.children[*i])),
			f,
			self.options,
			self.indent,
			self.sizes,
			&mut index,
		);
		self.end.set(index);
		r
	}
}

fn ref_indent<const W: usize>(unit: Indent, n: usize, out: &mut Sink<W>) {
	let mut i = 0;
	while i < n {
		match unit {
			Indent::Spaces(k) => out.push_n(b' ', k as usize),
			Indent::Tabs(k) => out.push_n(b'\t', k as usize),
		}
		i += 1;
	}
}

/// Reference emitter for one container level, written from the field
/// documentation of `print::Options`.
#[allow(clippy::too_many_arguments)]
fn ref_container<const W: usize, const K: usize>(
	object: bool,
	keys: Option<&[char; 4]>,
	bytes: &[u8; 4],
	expanded: bool,
	o: &Options,
	indent: usize,
	out: &mut Sink<W>,
) {
	let (open, close, begin, end, empty, before_comma, after_comma) = if object {
		(b'{', b'}', o.object_begin, o.object_end, o.object_empty, o.object_before_comma, o.object_after_comma)
	} else {
		(b'[', b']', o.array_begin, o.array_end, o.array_empty, o.array_before_comma, o.array_after_comma)
	};
	out.push(open);
	if K == 0 {
		if expanded {
			out.push(b'\n');
			ref_indent(o.indent, indent, out);
		} else {
			out.push_n(b' ', empty);
		}
	} else {
		if expanded {
			out.push(b'\n');
		} else {
			out.push_n(b' ', begin);
		}
		let mut i = 0;
		while i < K {
			if i > 0 {
				out.push_n(b' ', before_comma);
				out.push(b',');
				if expanded {
					out.push(b'\n');
				} else {
					out.push_n(b' ', after_comma);
				}
			}
			if expanded {
				ref_indent(o.indent, indent + 1, out);
			}
			if let Some(keys) = keys {
				out.push(b'"');
				ref_escape(keys[i], out);
				out.push(b'"');
				out.push_n(b' ', o.object_before_colon);
				out.push(b':');
				out.push_n(b' ', o.object_after_colon);
			}
			out.push(bytes[i]);
			i += 1;
		}
		if expanded {
			out.push(b'\n');
			ref_indent(o.indent, indent, out);
		} else {
			out.push_n(b' ', end);
		}
	}
	out.push(close);
}

#[cfg(kani)]
fn sym_sizes(start: usize, expanded: bool) -> [Size; 4] {
	let mut s = [Size::Width(9), Size::Expanded, Size::Width(3), Size::Expanded];
	s[start] = if expanded {
		Size::Expanded
	} else {
		Size::Width(kani::any())
	};
	s
}

macro_rules! p2_array {
	($name:ident, $k:expr, $w:expr) => {
		#[cfg(kani)]
		#[kani::proof]
		#[kani::unwind(6)]
		fn $name() {
			const K: usize = $k;
			let o = sym_options(3, 3, 24);
			let children: [Child; 4] = core::array::from_fn(|_| sym_child());
			let indent = any_le(2);
			let start = any_le(1);
			let expanded: bool = kani::any();
			let sizes = sym_sizes(start, expanded);
			let end = Cell::new(0);
			let mut got = Sink::<$w>::new();
			write!(
				got,
				"{}",
				PrintedArray::<K> {
					children: &children,
					options: &o,
					indent,
					sizes: &sizes,
					start,
					end: &end
				}
			)
			.unwrap();
			let bytes: [u8; 4] = core::array::from_fn(|i| children[i].byte);
			let mut want = Sink::<$w>::new();
			ref_container::<$w, K>(false, None, &bytes, expanded, &o, indent, &mut want);
			assert!(!want.overflow, "C13:harness-sink-large-enough");
			assert!(got.same_as(&want), "C13:array-emission");
			let mut next = start + 1;
			let mut i = 0;
			while i < K {
				assert!(children[i].calls.get() == 1, "C13:array-child-printed-once");
				assert!(children[i].seen_index.get() == next, "C04+C13:array-child-size-index");
				assert!(children[i].seen_indent.get() == indent + 1, "C13:array-child-depth");
				next += children[i].consumes;
				i += 1;
			}
			assert!(end.get() == next, "C04+C13:array-consumes-own-slot-plus-children");
			kani::cover!(expanded);
			kani::cover!(!expanded);
		}
	};
}

p2_array!(c13_p2_array_k0, 0, 3);
p2_array!(c13_p2_array_k1, 1, 6);
p2_array!(c13_p2_array_k2, 2, 8);
p2_array!(c13_p2_array_k3, 3, 10);

macro_rules! p2_object {
	($name:ident, $k:expr, $w:expr) => {
		#[cfg(kani)]
		#[kani::proof]
		#[kani::unwind(6)]
		fn $name() {
			const K: usize = $k;
			let o = sym_options(3, 3, 24);
			let children: [Child; 4] = core::array::from_fn(|_| sym_child());
			let keys: [char; 4] = core::array::from_fn(|_| kani::any());
			let mut bufs = [[0u8; 4]; 4];
			let mut strs: [&str; 4] = [""; 4];
			let mut i = 0;
			for b in bufs.iter_mut() {
				strs[i] = keys[i].encode_utf8(b);
				i += 1;
			}
			let indent = any_le(2);
			let start = any_le(1);
			let expanded: bool = kani::any();
			let sizes = sym_sizes(start, expanded);
			let end = Cell::new(0);
			let mut got = Sink::<$w>::new();
			write!(
				got,
				"{}",
				PrintedObject::<K> {
					keys: &strs,
					children: &children,
					options: &o,
					indent,
					sizes: &sizes,
					start,
					end: &end
				}
			)
			.unwrap();
			let bytes: [u8; 4] = core::array::from_fn(|i| children[i].byte);
			let mut want = Sink::<$w>::new();
			ref_container::<$w, K>(true, Some(&keys), &bytes, expanded, &o, indent, &mut want);
			assert!(!want.overflow, "C13:harness-sink-large-enough");
			assert!(got.same_as(&want), "C13:object-emission");
			let mut next = start + 1;
			let mut i = 0;
			while i < K {
				assert!(children[i].calls.get() == 1, "C13:object-child-printed-once");
				assert!(children[i].seen_index.get() == next, "C04+C13:object-child-size-index");
				assert!(children[i].seen_indent.get() == indent + 1, "C13:object-child-depth");
				next += children[i].consumes;
				i += 1;
			}
			assert!(end.get() == next, "C04+C13:object-consumes-own-slot-plus-children");
			kani::cover!(expanded);
			kani::cover!(!expanded);
		}
	};
}

p2_object!(c13_p2_object_k0, 0, 3);
p2_object!(c13_p2_object_k1, 1, 8);
p2_object!(c13_p2_object_k2, 2, 12);

// ---------------------------------------------------------------------------
// P3 / C08: string literal escaping and its printed width

/// Every one-character string (all 1,112,064 scalar values).
#[cfg(kani)]
#[kani::proof]
#[kani::unwind(6)]
fn c08_string_literal_1char() {
	let c: char = kani::any();
	let mut b = [0u8; 4];
	let s: &str = c.encode_utf8(&mut b);
	let mut got = Sink::<2>::new();
	write!(got, "{}", Lit(s)).unwrap();
	let mut want = Sink::<2>::new();
	ref_string_literal(&[c], &mut want);
	assert!(got.same_as(&want), "C08:string-literal-escaping");
	assert!(printed_string_size(s) == 2 + ref_escape_width(c), "C13:printed-string-size-is-printed-width");
	kani::cover!(c == '\u{2028}');
	kani::cover!(c == '\u{7f}');
	kani::cover!(c == '\u{1f}');
	kani::cover!(c == '\u{8}');
	kani::cover!(c == '/');
	kani::cover!(c as u32 > 0xFFFF);
	kani::cover!(c == '"');
}

#[cfg(kani)]
fn alphabet_char() -> char {
	let i: u8 = kani::any();
	match i {
		0 => '"',
		1 => '\\',
		2 => '/',
		3 => '\u{8}',
		4 => '\u{c}',
		5 => '\u{1f}',
		6 => '\u{7f}',
		7 => '\u{2028}',
		8 => '\u{0}',
		9 => '\u{1F600}',
		10 => '\n',
		_ => 'a',
	}
}

/// Two-character strings over the escape-relevant alphabet.
#[cfg(kani)]
#[kani::proof]
#[kani::unwind(6)]
fn c08_string_literal_2chars() {
	let c1 = alphabet_char();
	let c2 = alphabet_char();
	let mut b = [0u8; 8];
	let n1 = c1.encode_utf8(&mut b).len();
	let n2 = c2.encode_utf8(&mut b[n1..]).len();
	let s = core::str::from_utf8(&b[..n1 + n2]).unwrap();
	let mut got = Sink::<3>::new();
	write!(got, "{}", Lit(s)).unwrap();
	let mut want = Sink::<3>::new();
	ref_string_literal(&[c1, c2], &mut want);
	assert!(got.same_as(&want), "C08:string-literal-escaping");
	assert!(
		printed_string_size(s) == 2 + ref_escape_width(c1) + ref_escape_width(c2),
		"C13:printed-string-size-is-printed-width"
	);
	kani::cover!(c1 == '\u{1f}' && c2 == '"');
	kani::cover!(c1 == '\u{1F600}' && c2 == '\u{2028}');
}

#[cfg(test)]
mod tests {
	use super::*;
	use json_syntax::{Print, Value};

	fn esc(s: &str) -> String {
		let cs: Vec<char> = s.chars().collect();
		let mut out = Sink::<16>::new();
		ref_string_literal(&cs, &mut out);
		String::from_utf8(out.to_vec()).unwrap()
	}

	/// The reference escaping agrees with the repository's own expectations
	/// (tests/print.rs, src/lib.rs canonicalize_02).
	#[test]
	fn reference_escape_matches_repo_expectations() {
		assert_eq!(esc("a\"\\\u{8}\u{c}\n\r\t"), "\"a\\\"\\\\\\b\\f\\n\\r\\t\"");
		assert_eq!(esc("\u{20ac}$\u{f}\nA'B\"\\\\\"/"), "\"€$\\u000f\\nA'B\\\"\\\\\\\\\\\"/\"");
		for s in ["", "abc", "\u{7f}", "\u{2028}", "\u{1F600}", "\u{0}\u{1f}", "/"] {
			assert_eq!(esc(s), Value::from(s).compact_print().to_string());
			assert_eq!(
				printed_string_size(s),
				2 + s.chars().map(ref_escape_width).sum::<usize>()
			);
		}
	}
}

// ---------------------------------------------------------------------------
// C08: compact preset, one container level, and scalar rendering
// (Display / compact_print / print_with agree; options never reach scalars)

macro_rules! c08_compact_level {
	($name:ident, $object:expr, $k:expr) => {
		#[cfg(kani)]
		#[kani::proof]
		#[kani::unwind(6)]
		fn $name() {
			const K: usize = $k;
			let o = Options::compact();
			let children: [Child; 4] = core::array::from_fn(|_| sym_child());
			let keys: [char; 4] = core::array::from_fn(|_| kani::any());
			let mut bufs = [[0u8; 4]; 4];
			let mut strs: [&str; 4] = [""; 4];
			let mut i = 0;
			for b in bufs.iter_mut() {
				strs[i] = keys[i].encode_utf8(b);
				i += 1;
			}
			let sizes = [Size::Width(kani::any()), Size::Expanded, Size::Expanded, Size::Expanded];
			let end = Cell::new(0);
			let mut got = Sink::<6>::new();
			if $object {
				write!(got, "{}", PrintedObject::<K> { keys: &strs, children: &children, options: &o, indent: any_le(2), sizes: &sizes, start: 0, end: &end }).unwrap();
			} else {
				write!(got, "{}", PrintedArray::<K> { children: &children, options: &o, indent: any_le(2), sizes: &sizes, start: 0, end: &end }).unwrap();
			}
			// the minimal serialization: brackets, children joined by ',', keys followed by ':'
			let mut want = Sink::<6>::new();
			want.push(if $object { b'{' } else { b'[' });
			let mut i = 0;
			while i < K {
				if i > 0 {
					want.push(b',');
				}
				if $object {
					want.push(b'"');
					ref_escape(keys[i], &mut want);
					want.push(b'"');
					want.push(b':');
				}
				want.push(children[i].byte);
				i += 1;
			}
			want.push(if $object { b'}' } else { b']' });
			assert!(got.same_as(&want), "C08:compact-container-has-only-brackets-commas-colons");
			// the compact preset cannot expand a container whose children are not expanded
			let items: [Item; 4] = core::array::from_fn(|i| Item { size: Size::Width(any_le(64)), pushes: (i + 1) % 3 });
			let mut sz: Vec<Size> = Vec::with_capacity(12);
			let idx: [usize; 4] = [0, 1, 2, 3];
			let s = if $object {
				pre_compute_object_size(idx[..K].iter().map(|i| (strs[*i], &items[*i])), &o, &mut sz)
			} else {
				pre_compute_array_size(items[..K].iter(), &o, &mut sz)
			};
			assert!(width_of(s).is_some(), "C08:compact-preset-never-expands");
			kani::cover!(K == 0 || children[0].byte == b'7');
			core::mem::forget(sz);
		}
	};
}

c08_compact_level!(c08_compact_array_k0, false, 0);
c08_compact_level!(c08_compact_array_k2, false, 2);
c08_compact_level!(c08_compact_object_k0, true, 0);
c08_compact_level!(c08_compact_object_k2, true, 2);

pub const SPELLINGS: [&[u8]; 8] = [b"0", b"-0", b"1", b"-12", b"1.50", b"1E+2", b"0e-1", b"10000001"];

/// Scalars print as their token under every option record and through every
/// printing entry point (`Display`, `compact_print`, `print_with`). One
/// harness per variant (the variant is concrete, its payload symbolic).
macro_rules! c08_scalar {
	($name:ident, $unwind:expr, $t:expr) => {
		#[cfg(kani)]
		#[kani::proof]
		#[kani::unwind($unwind)]
		#[kani::stub(smallvec::SmallVec::try_grow, crate::util::no_grow)]
		fn $name() {
			use json_syntax::{NumberBuf, Print, Value};
			const T: u8 = $t;
			let c: char = kani::any();
			let k: usize = kani::any();
			kani::assume(k < 8);
			let b: bool = kani::any();
			let mut want = Sink::<2>::new();
			let v = match T {
				0 => {
					want.push_all(b"null");
					Value::Null
				}
				1 => {
					want.push_all(if b { b"true" } else { b"false" });
					Value::Boolean(b)
				}
				2 => {
					want.push_all(SPELLINGS[k]);
					Value::Number(unsafe { NumberBuf::new_unchecked(crate::util::number_bytes(SPELLINGS[k])) })
				}
				_ => {
					ref_string_literal(&[c], &mut want);
					let mut s = json_syntax::String::new();
					s.push(c);
					Value::String(s)
				}
			};
			let mut d = Sink::<2>::new();
			write!(d, "{}", v).unwrap();
			assert!(d.same_as(&want), "C08:display-is-the-compact-token");
			let mut p = Sink::<2>::new();
			write!(p, "{}", v.compact_print()).unwrap();
			assert!(p.same_as(&want), "C08:compact-print-is-the-compact-token");
			let mut q = Sink::<2>::new();
			write!(q, "{}", v.print_with(sym_options(3, 3, 24))).unwrap();
			assert!(q.same_as(&want), "C13:options-never-reach-scalars");
			let mut sizes = Vec::new();
			let s = v.pre_compute_size(&sym_options(3, 3, 24), &mut sizes);
			assert!(width_of(s) == Some(if T >= 3 { 2 + ref_escape_width(c) } else { want.len }) && sizes.len() == 0, "C13:scalar-width-is-printed-width");
			kani::cover!(T != 2 || k == 7);
			kani::cover!(T != 3 || c == '\u{1f}');
			kani::cover!(T != 1 || b);
			core::mem::forget(v);
			core::mem::forget(sizes);
		}
	};
}

c08_scalar!(c08_scalar_null, 7, 0);
c08_scalar!(c08_scalar_bool, 7, 1);
c08_scalar!(c08_scalar_number, 10, 2);
c08_scalar!(c08_scalar_string, 8, 3);

/// A `fmt::Write` sink that only counts: bytes written, and whether the first
/// and last byte of every write were `expect` (no buffer, no loop).
pub struct CountSink {
	pub len: usize,
	pub bad: bool,
	pub expect: u8,
}

impl core::fmt::Write for CountSink {
	fn write_str(&mut self, s: &str) -> core::fmt::Result {
		// loop-free (a write of any length must not need unwinding here): the length is
		// counted exactly, the content is probed at both ends of every write
		let b = s.as_bytes();
		if !b.is_empty() && (b[0] != self.expect || b[b.len() - 1] != self.expect) {
			self.bad = true;
		}
		self.len += b.len();
		Ok(())
	}
}

/// The indentation of a line is depth x unit, for every unit and depth (not
/// only the small ones the layout harnesses use): `Indent::by(depth)` writes
/// exactly `n * depth` copies of the unit character.
#[cfg(kani)]
#[kani::proof]
#[kani::unwind(26)]
fn c13_indent_is_depth_times_unit() {
	use json_syntax::print::Indent;
	let n: u8 = kani::any();
	let depth: usize = kani::any();
	let tabs: bool = kani::any();
	kani::assume(n <= 24 && depth <= 4);
	let unit = if tabs { Indent::Tabs(n) } else { Indent::Spaces(n) };
	let mut out = CountSink {
		len: 0,
		bad: false,
		expect: if tabs { b'\t' } else { b' ' },
	};
	write!(out, "{}", unit.by(depth)).unwrap();
	assert!(!out.bad && out.len == (n as usize) * depth, "C13:indentation-is-depth-times-the-indent-unit");
	kani::cover!((n as usize) * depth > 64);
	kani::cover!(tabs && n == 2 && depth == 3);
}
