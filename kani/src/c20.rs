//! C20 — KindSet is a faithful finite set of value kinds.
//!
//! The model of a set is a `u8 < 64` (bit i = kind i in declaration order).
//! Sets are *constructed* from the public constants with set-set union and
//! *observed* through the forward iterator, so constructor and observer do
//! not share code; every harness quantifies over the whole domain, hence the
//! check is exhaustive within the trusted base.
use crate::util::Sink;
use core::fmt::Write;
use json_syntax::{Kind, KindSet, Value};

const NAMES: [&str; 6] = ["null", "boolean", "number", "string", "array", "object"];

fn kind(i: u8) -> Kind {
	match i {
		0 => Kind::Null,
		1 => Kind::Boolean,
		2 => Kind::Number,
		3 => Kind::String,
		4 => Kind::Array,
		_ => Kind::Object,
	}
}

fn kind_index(k: Kind) -> u8 {
	match k {
		Kind::Null => 0,
		Kind::Boolean => 1,
		Kind::Number => 2,
		Kind::String => 3,
		Kind::Array => 4,
		Kind::Object => 5,
	}
}

/// Constructor: union of public constants.
fn set(b: u8) -> KindSet {
	let mut s = KindSet::none();
	if b & 1 != 0 {
		s = s | KindSet::NULL
	}
	if b & 2 != 0 {
		s = s | KindSet::BOOLEAN
	}
	if b & 4 != 0 {
		s = s | KindSet::NUMBER
	}
	if b & 8 != 0 {
		s = s | KindSet::STRING
	}
	if b & 16 != 0 {
		s = s | KindSet::ARRAY
	}
	if b & 32 != 0 {
		s = s | KindSet::OBJECT
	}
	s
}

/// Observer: forward iteration; also asserts ascending order, no repetition
/// and termination within six steps.
fn bits(s: KindSet) -> u8 {
	let mut it = s.iter();
	let mut out = 0u8;
	let mut last: i8 = -1;
	let mut n = 0;
	while n < 7 {
		match it.next() {
			Some(k) => {
				let i = kind_index(k);
				assert!((i as i8) > last, "C20:iter-ascending");
				last = i as i8;
				out |= 1 << i;
			}
			None => return out,
		}
		n += 1;
	}
	panic!("C20:iter-terminates")
}

#[cfg(kani)]
fn any_set_bits() -> u8 {
	let b: u8 = kani::any();
	kani::assume(b < 64);
	b
}

#[cfg(kani)]
fn any_kind_index() -> u8 {
	let k: u8 = kani::any();
	kani::assume(k < 6);
	k
}

#[cfg(kani)]
#[kani::proof]
#[kani::unwind(8)]
fn c20_construct_observe() {
	let b = any_set_bits();
	assert!(bits(set(b)) == b, "C20:construct-observe");
	let c = any_set_bits();
	assert!((set(b) == set(c)) == (b == c), "C20:eq-is-set-equality");
	assert!(set(b).len() == b.count_ones() as usize, "C20:len");
	assert!(set(b).is_empty() == (b == 0), "C20:is-empty");
	assert!(bits(KindSet::none()) == 0, "C20:none");
	assert!(bits(KindSet::default()) == 0, "C20:default");
	assert!(bits(KindSet::all()) == 63, "C20:all");
	kani::cover!(b == 0);
	kani::cover!(b == 63);
	kani::cover!(b == 0b101010);
}

#[cfg(kani)]
#[kani::proof]
#[kani::unwind(8)]
fn c20_ops_set_set() {
	let a = any_set_bits();
	let b = any_set_bits();
	assert!(bits(set(a) | set(b)) == (a | b), "C20:set|set");
	assert!(bits(set(a) & set(b)) == (a & b), "C20:set&set");
	let mut s = set(a);
	s |= set(b);
	assert!(bits(s) == (a | b), "C20:set|=set");
	let mut s = set(a);
	s &= set(b);
	assert!(bits(s) == (a & b), "C20:set&=set");
	kani::cover!(a & b != 0 && a | b != a && a | b != b);
}

#[cfg(kani)]
#[kani::proof]
#[kani::unwind(8)]
fn c20_ops_with_kind() {
	let a = any_set_bits();
	let i = any_kind_index();
	let j = any_kind_index();
	let (ki, kj) = (kind(i), kind(j));
	let (mi, mj) = (1u8 << i, 1u8 << j);
	assert!(kind_index(ki) == i, "C20:kind-index");
	assert!(bits(KindSet::from(ki)) == mi, "C20:from-kind");
	// Set x Kind
	assert!(bits(set(a) | ki) == (a | mi), "C20:set|kind");
	assert!(bits(set(a) & ki) == (a & mi), "C20:set&kind");
	let mut s = set(a);
	s |= ki;
	assert!(bits(s) == (a | mi), "C20:set|=kind");
	let mut s = set(a);
	s &= ki;
	assert!(bits(s) == (a & mi), "C20:set&=kind");
	// Kind x Set
	assert!(bits(ki | set(a)) == (a | mi), "C20:kind|set");
	assert!(bits(ki & set(a)) == (a & mi), "C20:kind&set");
	// Kind x Kind
	assert!(bits(ki | kj) == (mi | mj), "C20:kind|kind");
	assert!(bits(ki & kj) == (mi & mj), "C20:kind&kind");
	kani::cover!(i == j);
	kani::cover!(i != j && a & mi != 0 && a & mj == 0);
}

/// Every interleaving of up to eight `next` / `next_back` calls (chosen by
/// symbolic bits; six can be productive, the rest must return `None`).
#[cfg(kani)]
#[kani::proof]
#[kani::unwind(10)]
fn c20_iter_interleavings() {
	let b = any_set_bits();
	let choice: u8 = kani::any();
	let mut it = set(b).iter();
	let mut it2 = (&set(b)).into_iter();
	let mut rest = b; // model: remaining elements
	let mut step = 0;
	while step < 8 {
		let n = rest.count_ones() as usize;
		assert!(it.size_hint() == (n, Some(n)), "C20:size-hint-exact");
		assert!(it.len() == n, "C20:exact-size-len");
		let back = (choice >> step) & 1 != 0;
		let got = if back { it.next_back() } else { it.next() };
		let got2 = if back { it2.next_back() } else { it2.next() };
		let want = if rest == 0 {
			None
		} else if back {
			Some(7 - rest.leading_zeros() as u8)
		} else {
			Some(rest.trailing_zeros() as u8)
		};
		match (got, want) {
			(None, None) => (),
			(Some(k), Some(w)) => {
				assert!(kind_index(k) == w, "C20:iter-front-ascending-back-descending");
				rest &= !(1 << w);
			}
			_ => panic!("C20:iter-yields-exactly-the-members"),
		}
		assert!(got == got2, "C20:into-iter-agrees");
		step += 1;
	}
	kani::cover!(b == 63 && choice == 0b010101);
	kani::cover!(b == 0);
	kani::cover!(b.count_ones() == 3 && choice & 7 == 0b101);
}

fn reference_list(b: u8, last_sep: &str, out: &mut Sink<6>) {
	// plain ", " join when last_sep == ", "
	let n = b.count_ones();
	let mut seen = 0;
	let mut i = 0;
	while i < 6 {
		if b & (1 << i) != 0 {
			if seen > 0 {
				if seen + 1 == n {
					out.push_all(last_sep.as_bytes());
				} else {
					out.push_all(b", ");
				}
			}
			out.push_all(NAMES[i].as_bytes());
			seen += 1;
		}
		i += 1;
	}
}

fn reference_junction(b: u8, word: &str, out: &mut Sink<6>) {
	if b == 63 {
		out.push_all(b"anything")
	} else if b == 0 {
		out.push_all(b"nothing")
	} else {
		reference_list(b, word, out)
	}
}

#[cfg(kani)]
#[kani::proof]
#[kani::unwind(10)]
fn c20_render_display() {
	let b = any_set_bits();
	let mut got = Sink::<6>::new();
	write!(got, "{}", set(b)).unwrap();
	let mut want = Sink::<6>::new();
	reference_list(b, ", ", &mut want);
	assert!(got.same_as(&want), "C20:display-comma-list");
	kani::cover!(b == 63);
	kani::cover!(b == 0);
}

#[cfg(kani)]
#[kani::proof]
#[kani::unwind(10)]
fn c20_render_disjunction() {
	let b = any_set_bits();
	let mut got = Sink::<6>::new();
	write!(got, "{}", set(b).as_disjunction()).unwrap();
	let mut want = Sink::<6>::new();
	reference_junction(b, " or ", &mut want);
	assert!(got.same_as(&want), "C20:disjunction-rendering");
	kani::cover!(b == 63);
	kani::cover!(b == 0);
	kani::cover!(b.count_ones() == 1);
	kani::cover!(b.count_ones() == 2);
	kani::cover!(b.count_ones() == 5);
}

#[cfg(kani)]
#[kani::proof]
#[kani::unwind(10)]
fn c20_render_conjunction() {
	let b = any_set_bits();
	let mut got = Sink::<6>::new();
	write!(got, "{}", set(b).as_conjunction()).unwrap();
	let mut want = Sink::<6>::new();
	reference_junction(b, " and ", &mut want);
	assert!(got.same_as(&want), "C20:conjunction-rendering");
	kani::cover!(b == 63);
	kani::cover!(b == 0);
	kani::cover!(b.count_ones() == 3);
}

#[cfg(kani)]
#[kani::proof]
#[kani::unwind(10)]
fn c20_kind_display() {
	let i = any_kind_index();
	let mut got = Sink::<6>::new();
	write!(got, "{}", kind(i)).unwrap();
	let mut want = Sink::<6>::new();
	want.push_all(NAMES[i as usize].as_bytes());
	assert!(got.same_as(&want), "C20:kind-display");
	kani::cover!(i == 5);
}

/// `Value::kind()` / `is_kind` / `is_*` for each variant (stack values).
#[cfg(kani)]
#[kani::proof]
#[kani::unwind(4)]
fn c20_value_kind() {
	let which = any_kind_index();
	let v = match which {
		0 => Value::Null,
		1 => Value::Boolean(kani::any()),
		2 => Value::Number(json_syntax::NumberBuf::from(7u8)),
		3 => Value::String(json_syntax::String::new()),
		4 => Value::Array(Vec::new()),
		_ => Value::Object(json_syntax::Object::new()),
	};
	assert!(kind_index(v.kind()) == which, "C20:value-kind-matches-variant");
	let j = any_kind_index();
	assert!(v.is_kind(kind(j)) == (j == which), "C20:is-kind");
	assert!(v.is_null() == (which == 0), "C20:is-null");
	assert!(v.is_boolean() == (which == 1), "C20:is-boolean");
	assert!(v.is_number() == (which == 2), "C20:is-number");
	assert!(v.is_string() == (which == 3), "C20:is-string");
	assert!(v.is_array() == (which == 4), "C20:is-array");
	assert!(v.is_object() == (which == 5), "C20:is-object");
	kani::cover!(which == 5);
	kani::cover!(which == 2);
	core::mem::forget(v);
}

/// Native sanity run of the reference renderings against the crate's own
/// documented examples (validates the reference, not the implementation).
#[cfg(test)]
mod tests {
	use super::*;

	#[test]
	fn reference_matches_doc_examples() {
		let mut s = Sink::<6>::new();
		reference_junction(0b101001, " or ", &mut s);
		assert!(s.same_as_bytes(b"null, string or object"));
		let mut s = Sink::<6>::new();
		reference_junction(0b010000, " and ", &mut s);
		assert!(s.same_as_bytes(b"array"));
		let mut s = Sink::<6>::new();
		reference_junction(63, " or ", &mut s);
		assert!(s.same_as_bytes(b"anything"));
		for b in 0..64u8 {
			assert_eq!(bits(set(b)), b);
			let mut want = Sink::<6>::new();
			reference_junction(b, " or ", &mut want);
			assert_eq!(
				core::str::from_utf8(&want.to_vec()).unwrap(),
				set(b).as_disjunction().to_string()
			);
		}
	}
}
