// Shared helpers for the harnesses (module `util` of the external crate and,
// through `include!`, `crate::verif::util` of the in-crate harness modules).
//
// Everything here is harness-side reference code: fixed-size, heap-free, and
// short enough to be read in one sitting (it is part of the trusted base).

use core::cmp::Ordering;
use core::fmt;

/// Fixed-capacity `fmt::Write` sink (no heap), `W` 64-bit words = `8*W`
/// bytes. Bytes are packed into words so that two sinks are compared with `W`
/// word comparisons: the comparison loop then fits inside the same small
/// unwind bound as the loops of the code under verification (Kani has one
/// unwind bound per harness). `overflow` is set instead of failing so that a
/// harness can assert it never happens within its bound.
pub struct Sink<const W: usize> {
	pub w: [u64; W],
	pub len: usize,
	pub overflow: bool,
}

impl<const W: usize> Sink<W> {
	pub fn new() -> Self {
		Self {
			w: [0; W],
			len: 0,
			overflow: false,
		}
	}

	#[inline(always)]
	pub fn push(&mut self, b: u8) {
		if self.len < 8 * W {
			self.w[self.len / 8] |= (b as u64) << (8 * (self.len % 8));
			self.len += 1;
		} else {
			self.overflow = true;
		}
	}

	pub fn byte(&self, i: usize) -> u8 {
		(self.w[i / 8] >> (8 * (i % 8))) as u8
	}

	pub fn push_all(&mut self, s: &[u8]) {
		let mut i = 0;
		while i < s.len() {
			self.push(s[i]);
			i += 1;
		}
	}

	pub fn push_n(&mut self, b: u8, n: usize) {
		let mut i = 0;
		while i < n {
			self.push(b);
			i += 1;
		}
	}

	/// Appends the UTF-8 encoding of `c` (reference encoder, written out so
	/// that it does not share code with `char::encode_utf8`).
	pub fn push_char(&mut self, c: char) {
		let u = c as u32;
		if u < 0x80 {
			self.push(u as u8);
		} else if u < 0x800 {
			self.push(0xC0 | (u >> 6) as u8);
			self.push(0x80 | (u & 0x3F) as u8);
		} else if u < 0x10000 {
			self.push(0xE0 | (u >> 12) as u8);
			self.push(0x80 | ((u >> 6) & 0x3F) as u8);
			self.push(0x80 | (u & 0x3F) as u8);
		} else {
			self.push(0xF0 | (u >> 18) as u8);
			self.push(0x80 | ((u >> 12) & 0x3F) as u8);
			self.push(0x80 | ((u >> 6) & 0x3F) as u8);
			self.push(0x80 | (u & 0x3F) as u8);
		}
	}

	/// Word-wise comparison, loop-free (never slice `==`, which is a memcmp
	/// loop): Kani has one unwind bound per harness and this must not raise it.
	pub fn same_as(&self, other: &Sink<W>) -> bool {
		if self.len != other.len || self.overflow || other.overflow {
			return false;
		}
		macro_rules! word {
			($($i:expr),*) => { $( if $i < W && self.w[$i] != other.w[$i] { return false; } )* };
		}
		word!(0, 1, 2, 3, 4, 5, 6, 7, 8, 9, 10, 11, 12, 13, 14, 15);
		const { assert!(W <= 16); }
		true
	}

	/// Comparison with a constant byte string (native/validation use; under
	/// Kani prefer building a second sink and `same_as`).
	pub fn same_as_bytes(&self, other: &[u8]) -> bool {
		if self.len != other.len() || self.overflow {
			return false;
		}
		let mut i = 0;
		while i < other.len() {
			if self.byte(i) != other[i] {
				return false;
			}
			i += 1;
		}
		true
	}

	pub fn to_vec(&self) -> Vec<u8> {
		(0..self.len).map(|i| self.byte(i)).collect()
	}
}

impl<const W: usize> fmt::Write for Sink<W> {
	fn write_str(&mut self, s: &str) -> fmt::Result {
		let b = s.as_bytes();
		let mut i = 0;
		while i < b.len() {
			self.push(b[i]);
			i += 1;
		}
		Ok(())
	}

	fn write_char(&mut self, c: char) -> fmt::Result {
		self.push_char(c);
		Ok(())
	}
}

/// UTF-8 length of a scalar value (reference; not `char::len_utf8`).
pub fn utf8_len(c: char) -> usize {
	let u = c as u32;
	if u < 0x80 {
		1
	} else if u < 0x800 {
		2
	} else if u < 0x10000 {
		3
	} else {
		4
	}
}

/// The SmallVec growth stub: every harness keeps strings, keys and numbers
/// within the 16-byte inline capacity, where growth is unreachable. If a
/// change makes it reachable the harness fails (it is not assumed away).
#[cfg(kani)]
/// The bytes of the number spelling `src` (<= 8 bytes), for `NumberBuf::new_unchecked`. The bytes go through a
/// local array first: CBMC loses bytes of a `memcpy` whose SOURCE is one of
/// several constant objects selected by a symbolic index (observed:
/// `SmallVec::from_slice(TABLE[k])` left the second byte of "-0" unconstrained,
/// which made a harness fail on an input that passes natively).
pub fn number_bytes(src: &[u8]) -> smallvec::SmallVec<[u8; 16]> {
	let mut arr = [0u8; 8];
	let mut i = 0;
	while i < src.len() {
		arr[i] = src[i];
		i += 1;
	}
	smallvec::SmallVec::from_slice(&arr[..src.len()])
}

pub fn no_grow<A: smallvec::Array>(
	_: &mut smallvec::SmallVec<A>,
	_: usize,
) -> Result<(), smallvec::CollectionAllocErr> {
	panic!("SmallVec growth is outside the stated bound")
}

#[cfg(kani)]
pub fn any_char() -> char {
	kani::any()
}

/// Compares a `str` with the first `len` bytes of `buf` field-wise.
pub fn str_is(s: &str, buf: &[u8], len: usize) -> bool {
	let b = s.as_bytes();
	if b.len() != len {
		return false;
	}
	let mut i = 0;
	while i < buf.len() {
		if i < len && b[i] != buf[i] {
			return false;
		}
		i += 1;
	}
	true
}

// ---------------------------------------------------------------------------
// reference: UTF-16 code unit order of two scalar values / short strings

pub fn utf16_units(c: char) -> ([u16; 2], usize) {
	let u = c as u32;
	if u < 0x10000 {
		([u as u16, 0], 1)
	} else {
		let v = u - 0x10000;
		([0xD800 + (v >> 10) as u16, 0xDC00 + (v & 0x3FF) as u16], 2)
	}
}

/// Lexicographic order of the UTF-16 encodings of two strings of <= 2 chars.
pub fn ref_utf16_cmp(a: &[char], b: &[char]) -> Ordering {
	let mut ua = [0u16; 4];
	let mut ub = [0u16; 4];
	let mut na = 0;
	let mut nb = 0;
	let mut i = 0;
	while i < 2 {
		if i < a.len() {
			let (u, n) = utf16_units(a[i]);
			ua[na] = u[0];
			if n == 2 {
				ua[na + 1] = u[1];
			}
			na += n;
		}
		if i < b.len() {
			let (u, n) = utf16_units(b[i]);
			ub[nb] = u[0];
			if n == 2 {
				ub[nb + 1] = u[1];
			}
			nb += n;
		}
		i += 1;
	}
	let mut i = 0;
	while i < 4 {
		if i >= na || i >= nb {
			break;
		}
		if ua[i] != ub[i] {
			return ua[i].cmp(&ub[i]);
		}
		i += 1;
	}
	na.cmp(&nb)
}

