// C11 — fragment lookup by index (`get_fragment`) on values held on the stack.
//
// `json_syntax::get_array_fragment` takes the items as a slice, so it is driven
// on a stack array whose items are leaves (kinds concrete per instance): null, a boolean, an
// EMPTY array or an EMPTY object (`Vec::new()` / `Object::new()` do not
// allocate). Every leaf is one fragment, so fragment `i` of the item list is
// item `i` itself and an index past the end is rejected with the remaining
// distance. `Entry::get_fragment` is driven the same way. The recursion over
// non-empty nested containers held on the heap is outside the bound; so are
// empty OBJECTS as leaves (their instances did not finish in 15 min each).
#[allow(unused_imports)]
use json_syntax::object::Entry;
#[allow(unused_imports)]
use json_syntax::{get_array_fragment, FragmentRef, Object, Value};

/// Leaf of a CONCRETE kind per harness instance (a symbolic kind makes the
/// emptiness of the nested vectors symbolic and the mutual recursion of the
/// lookup functions is then unwound to the bound at every level: 9 min, 5 GB,
/// not finished); the boolean payload stays symbolic.
#[cfg(kani)]
fn leaf(kind: u8) -> Value {
	match kind {
		b'n' => Value::Null,
		b'b' => Value::Boolean(kani::any()),
		b'a' => Value::Array(Vec::new()),
		_ => Value::Object(Object::new()),
	}
}

#[allow(dead_code)]
fn is_value_at(r: &Result<FragmentRef, usize>, v: &Value) -> bool {
	matches!(r, Ok(FragmentRef::Value(x)) if core::ptr::eq(*x, v))
}

/// A leaf value: index 0 is the value itself, index i > 0 is rejected with i - 1.
macro_rules! c11_leaf {
	($name:ident, $kind:expr) => {
		#[cfg(kani)]
		#[kani::proof]
		#[kani::unwind(4)]
		fn $name() {
			let v = leaf($kind);
			let i: usize = kani::any();
			kani::assume(i < 1 << 30);
			let r = v.get_fragment(i);
			if i == 0 {
				assert!(is_value_at(&r, &v), "C11:fragment-0-is-the-value-itself");
			} else {
				assert!(matches!(r, Err(d) if d == i - 1), "C11:index-past-the-end-rejected-with-the-remaining-distance");
			}
			kani::cover!(i == 1);
			kani::cover!(i == 0);
			core::mem::forget(v);
		}
	};
}

c11_leaf!(c11_get_fragment_leaf_b, b'b');
c11_leaf!(c11_get_fragment_leaf_a, b'a');

macro_rules! c11_items {
	($name:ident, $kinds:expr) => {
		#[cfg(kani)]
		#[kani::proof]
		#[kani::unwind(6)]
		fn $name() {
			const KINDS: &[u8] = $kinds;
			const K: usize = KINDS.len();
			let backing = [
				leaf(if K > 0 { KINDS[0] } else { b'n' }),
				leaf(if K > 1 { KINDS[1] } else { b'n' }),
				leaf(if K > 2 { KINDS[2] } else { b'n' }),
				leaf(if K > 3 { KINDS[3] } else { b'n' }),
			];
			let items = &backing[..K];
			let i: usize = kani::any();
			kani::assume(i < 1 << 30);
			let r = get_array_fragment(items, i);
			if i < K {
				assert!(is_value_at(&r, &items[i]), "C11:fragment-i-is-the-i-th-fragment-of-the-traversal");
			} else {
				assert!(matches!(r, Err(d) if d == i - K), "C11:index-past-the-end-rejected-with-the-remaining-distance");
			}
			kani::cover!(K < 1 || i == K - 1);
			kani::cover!(i == K + 1);
			core::mem::forget(backing);
		}
	};
}

c11_items!(c11_get_array_fragment_empty, b"");
c11_items!(c11_get_array_fragment_a, b"a");
c11_items!(c11_get_array_fragment_bab, b"bab");
c11_items!(c11_get_array_fragment_nab, b"nab");
c11_items!(c11_get_array_fragment_aaba, b"aaba");

/// An entry with a leaf value: 0 the entry, 1 its key, 2 its value, then past the end.
macro_rules! c11_entry {
	($name:ident, $kind:expr) => {
		#[cfg(kani)]
		#[kani::proof]
		#[kani::unwind(4)]
		#[kani::stub(smallvec::SmallVec::try_grow, crate::util::no_grow)]
		fn $name() {
			let mut key = json_syntax::object::Key::new();
			key.push('k');
			let e = Entry::new(key, leaf($kind));
			let i: usize = kani::any();
			kani::assume(i < 1 << 30);
			let r = e.get_fragment(i);
			match i {
				0 => assert!(matches!(r, Ok(FragmentRef::Entry(x)) if core::ptr::eq(x, &e)), "C11:entry-fragment-0-is-the-entry"),
				1 => assert!(matches!(r, Ok(FragmentRef::Key(x)) if core::ptr::eq(x, &e.key)), "C11:entry-fragment-1-is-its-key"),
				2 => assert!(is_value_at(&r, &e.value), "C11:entry-fragment-2-is-its-value"),
				_ => assert!(matches!(r, Err(d) if d == i - 3), "C11:index-past-the-end-rejected-with-the-remaining-distance"),
			}
			kani::cover!(i == 3);
			kani::cover!(i == 2);
			core::mem::forget(e);
		}
	};
}

c11_entry!(c11_entry_get_fragment_b, b'b');
c11_entry!(c11_entry_get_fragment_a, b'a');
