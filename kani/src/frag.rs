// C11 — fragment lookup by index (`get_fragment`) on values held on the stack.
//
// `json_syntax::get_array_fragment` takes the items as a slice, so it is driven
// on a stack array whose items are leaves of SYMBOLIC kind: null, a boolean, an
// EMPTY array or an EMPTY object (`Vec::new()` / `Object::new()` do not
// allocate). Every leaf is one fragment, so fragment `i` of the item list is
// item `i` itself and an index past the end is rejected with the remaining
// distance. `Entry::get_fragment` is driven the same way. The recursion over
// non-empty nested containers held on the heap is outside the bound.
#[allow(unused_imports)]
use json_syntax::object::Entry;
#[allow(unused_imports)]
use json_syntax::{get_array_fragment, FragmentRef, Object, Value};

#[cfg(kani)]
fn any_leaf() -> Value {
	let k: u8 = kani::any();
	match k & 3 {
		0 => Value::Null,
		1 => Value::Boolean(kani::any()),
		2 => Value::Array(Vec::new()),
		_ => Value::Object(Object::new()),
	}
}

#[allow(dead_code)]
fn is_value_at(r: &Result<FragmentRef, usize>, v: &Value) -> bool {
	matches!(r, Ok(FragmentRef::Value(x)) if core::ptr::eq(*x, v))
}

/// A leaf value: index 0 is the value itself, index i > 0 is rejected with i - 1.
#[cfg(kani)]
#[kani::proof]
#[kani::unwind(4)]
fn c11_get_fragment_leaf() {
	let v = any_leaf();
	let i: usize = kani::any();
	kani::assume(i < 1 << 30);
	let r = v.get_fragment(i);
	if i == 0 {
		assert!(is_value_at(&r, &v), "C11:fragment-0-is-the-value-itself");
	} else {
		assert!(matches!(r, Err(d) if d == i - 1), "C11:index-past-the-end-rejected-with-the-remaining-distance");
	}
	kani::cover!(i == 1 && matches!(v, Value::Array(_)));
	kani::cover!(i == 2 && matches!(v, Value::Object(_)));
	core::mem::forget(v);
}

macro_rules! c11_items {
	($name:ident, $k:expr) => {
		#[cfg(kani)]
		#[kani::proof]
		#[kani::unwind(6)]
		fn $name() {
			const K: usize = $k;
			let backing = [any_leaf(), any_leaf(), any_leaf(), any_leaf()];
			let items = &backing[..K];
			let i: usize = kani::any();
			kani::assume(i < 1 << 30);
			let r = get_array_fragment(items, i);
			if i < K {
				assert!(is_value_at(&r, &items[i]), "C11:fragment-i-is-the-i-th-fragment-of-the-traversal");
			} else {
				assert!(matches!(r, Err(d) if d == i - K), "C11:index-past-the-end-rejected-with-the-remaining-distance");
			}
			kani::cover!(K < 2 || (i == K - 1 && matches!(items[0], Value::Array(_))));
			kani::cover!(i == K + 1);
			core::mem::forget(backing);
		}
	};
}

c11_items!(c11_get_array_fragment_k0, 0);
c11_items!(c11_get_array_fragment_k1, 1);
c11_items!(c11_get_array_fragment_k2, 2);
c11_items!(c11_get_array_fragment_k3, 3);
c11_items!(c11_get_array_fragment_k4, 4);

/// An entry with a leaf value: 0 the entry, 1 its key, 2 its value, then past the end.
#[cfg(kani)]
#[kani::proof]
#[kani::unwind(4)]
#[kani::stub(smallvec::SmallVec::try_grow, crate::util::no_grow)]
fn c11_entry_get_fragment() {
	let mut key = json_syntax::object::Key::new();
	if kani::any() {
		key.push('k');
	}
	let e = Entry::new(key, any_leaf());
	let i: usize = kani::any();
	kani::assume(i < 1 << 30);
	let r = e.get_fragment(i);
	match i {
		0 => assert!(matches!(r, Ok(FragmentRef::Entry(x)) if core::ptr::eq(x, &e)), "C11:entry-fragment-0-is-the-entry"),
		1 => assert!(matches!(r, Ok(FragmentRef::Key(x)) if core::ptr::eq(x, &e.key)), "C11:entry-fragment-1-is-its-key"),
		2 => assert!(is_value_at(&r, &e.value), "C11:entry-fragment-2-is-its-value"),
		_ => assert!(matches!(r, Err(d) if d == i - 3), "C11:index-past-the-end-rejected-with-the-remaining-distance"),
	}
	kani::cover!(i == 3 && matches!(e.value, Value::Object(_)));
	core::mem::forget(e);
}
