// Included into /verif/incrate/parse.rs as `parse::verif::drv`.
//
// The driver loop of the parser (src/parse/value.rs: `impl Parse for Fragment`
// — first-character dispatch — and `impl Parse for Value` — the explicit-stack
// machine that composes the fragment parsers, closes object-entry fragments,
// pushes items and entries in source order and rejects trailing garbage) is
// compiled here a second time from its CURRENT source text. The copy is made
// by /verif/gen_driver.py before every run and is verbatim except that
// `use crate::{..}` is redirected to `use super::model::{..}`, i.e. the same
// code runs against *non-recursive model value types*:
//
//   model::Value   enum with the same six variants; Number/String hold the REAL
//                  NumberBuf / SmallString produced by the REAL scalar parsers
//   model::Array   `new()` + `push(value)`: appends the pushed value's token
//   model::Object  `new()` + `push(key, value)`: signature (pre-order token stream)
//
// Everything else the driver touches is the real code: `Parser` (position,
// look-ahead, code map, begin/end_fragment, skip_whitespaces), `Context`,
// `Error`, the `Parse` impls of `()`, `bool`, `NumberBuf`, `SmallString`, and
// the array/object Start/Continue fragment parsers.
//
// Why: with the real `Value` the recursive drop glue of Value/Object/StackItem
// is unwound by CBMC at every exit of the function and whole-document parsing
// does not finish even for 3 characters; with flat value types it does, so
// whole documents become decidable for all character arrays up to a bound.
//
// What is trusted instead: that the real `Vec::push` / `Object::push` append
// (the latter is C06's subject) and that the real `Value` variants carry what
// the model variants carry.

use super::super::{array, Context, Error, Parse, Parser};
// (`object` is the generated copy of src/parse/object.rs below)
#[allow(unused_imports)]
use super::{any_base, any_options, at, is_unexpected, off, parser_at, ws, hexval, num_class, NUM_ACCEPTING, NUM_DFA};
#[allow(unused_imports)]
use core::cell::Cell;
#[allow(unused_imports)]
use locspan::Meta;

#[allow(dead_code)]
pub mod model {
	pub mod object {
		pub use super::Key;
	}

	/// Pre-order token stream of a value, 16 tokens of 8 bits.
	///   0x01 null   0x02 false   0x03 true
	///   0x40|len first last     number (spelling length, first and last byte)
	///   0x50|len first last     string (UTF-8 length capped at 15, first and last byte, 0 when empty)
	///   0xA0|len first last     object key
	///   0x06 .. 0x07            array     0x08 .. 0x09   object
	#[derive(Clone, Copy, PartialEq, Eq, PartialOrd, Ord, Hash, Debug)]
	pub struct Sig {
		pub len: u32,
		pub toks: u128,
		pub overflow: bool,
	}

	impl Sig {
		pub const fn new() -> Self {
			Sig {
				len: 0,
				toks: 0,
				overflow: false,
			}
		}

		#[inline(always)]
		pub fn push(&mut self, t: u8) {
			if self.len < 16 {
				self.toks |= (t as u128) << (8 * self.len);
				self.len += 1;
			} else {
				self.overflow = true;
			}
		}

		#[inline(always)]
		pub fn append(&mut self, o: &Sig) {
			if o.overflow {
				self.overflow = true;
			}
			if o.len == 0 {
				return;
			}
			if self.len + o.len <= 16 {
				self.toks |= o.toks << (8 * self.len);
				self.len += o.len;
			} else {
				self.overflow = true;
			}
		}

		pub fn d3(&mut self, kind: u8, d: D3) {
			self.push(kind | d.0);
			self.push(d.1);
			self.push(d.2);
		}

		pub fn same(&self, o: &Sig) -> bool {
			self.len == o.len && self.toks == o.toks && !self.overflow && !o.overflow
		}
	}

	/// digest of a scalar's bytes: (min(len,15), first byte, last byte)
	#[derive(Clone, Copy, PartialEq, Eq, PartialOrd, Ord, Hash, Debug)]
	pub struct D3(pub u8, pub u8, pub u8);

	impl D3 {
		pub fn of(b: &[u8]) -> Self {
			let l = if b.len() > 15 { 15 } else { b.len() };
			if b.is_empty() {
				D3(0, 0, 0)
			} else {
				D3(l as u8, b[0], b[b.len() - 1])
			}
		}
	}

	/// model of `NumberBuf`: parsed by the REAL number parser, then digested
	#[derive(Clone, Copy, PartialEq, Eq, PartialOrd, Ord, Hash, Debug)]
	pub struct NumberBuf(pub D3);
	/// model of `String`: parsed by the REAL string parser, then digested
	#[derive(Clone, Copy, PartialEq, Eq, PartialOrd, Ord, Hash, Debug)]
	pub struct String(pub D3);
	/// model of `object::Key`
	#[derive(Clone, Copy, PartialEq, Eq, PartialOrd, Ord, Hash, Debug)]
	pub struct Key(pub D3);

	use crate::parse::{Context, Error, Parse, Parser};
	use decoded_char::DecodedChar;
	use locspan::Meta;

	/// Contract model of the number parser: the RFC 8259 number DFA (the
	/// reference the number unit harnesses l3_number_* compare the real parser
	/// with, for every context) run on the real `Parser` primitives: maximal
	/// lexeme, look-ahead left pending, must be followed by end of input or a
	/// character of the context's follow set; one code-map entry.
	impl Parse for NumberBuf {
		fn parse_in<C, E>(parser: &mut Parser<C, E>, context: Context) -> Result<Meta<Self, usize>, Error<E>>
		where
			C: Iterator<Item = Result<DecodedChar, E>>,
		{
			use super::super::{num_class, NUM_ACCEPTING, NUM_DFA};
			let i = parser.begin_fragment();
			let mut state = 0usize;
			let mut len = 0usize;
			let mut first = 0u8;
			let mut last = 0u8;
			loop {
				match parser.peek_char()? {
					Some(c) => {
						let t = NUM_DFA[state][num_class(c)];
						if t == 255 {
							if NUM_ACCEPTING[state] && context.follows(c) {
								break;
							}
							return Err(Error::unexpected(parser.position, Some(c)));
						}
						state = t as usize;
						if len == 0 {
							first = c as u8;
						}
						last = c as u8;
						len += 1;
						parser.next_char()?;
					}
					None => {
						if NUM_ACCEPTING[state] {
							break;
						}
						return Err(Error::unexpected(parser.position, None));
					}
				}
			}
			parser.end_fragment(i);
			let l = if len > 15 { 15 } else { len };
			Ok(Meta(NumberBuf(D3(l as u8, first, last)), i))
		}
	}

	/// Contract model of the string parser for inputs WITHOUT a backslash
	/// (the driver harnesses assume there is none): opening quote, raw
	/// characters >= U+0020, closing quote; one code-map entry. That the real
	/// `SmallString::parse_in` behaves like this (verdict, consumed length,
	/// error position, code-map entry, decoded bytes) is what the string unit
	/// harnesses (l4_string_*, c12_r*, s1_object_*) establish.
	fn scan_string<C, E>(parser: &mut Parser<C, E>) -> Result<Meta<D3, usize>, Error<E>>
	where
		C: Iterator<Item = Result<DecodedChar, E>>,
	{
		let i = parser.begin_fragment();
		match parser.next_char()? {
			(_, Some('"')) => {
				let mut len = 0usize;
				let mut first = 0u8;
				let mut last = 0u8;
				loop {
					match parser.next_char()? {
						(_, Some('"')) => {
							parser.end_fragment(i);
							let l = if len > 15 { 15 } else { len };
							break Ok(Meta(D3(l as u8, first, last), i));
						}
						(p, Some(c)) if (c as u32) < 0x20 || c == '\\' => break Err(Error::unexpected(p, Some(c))),
						(_, Some(c)) => {
							if len == 0 {
								first = super::utf8_first(c);
							}
							last = super::utf8_last(c);
							len += crate::verif::util::utf8_len(c);
						}
						(p, None) => break Err(Error::unexpected(p, None)),
					}
				}
			}
			(p, unexpected) => Err(Error::unexpected(p, unexpected)),
		}
	}

	impl Parse for String {
		fn parse_in<C, E>(parser: &mut Parser<C, E>, _context: Context) -> Result<Meta<Self, usize>, Error<E>>
		where
			C: Iterator<Item = Result<DecodedChar, E>>,
		{
			let Meta(d, i) = scan_string(parser)?;
			Ok(Meta(String(d), i))
		}
	}

	impl Parse for Key {
		fn parse_in<C, E>(parser: &mut Parser<C, E>, _context: Context) -> Result<Meta<Self, usize>, Error<E>>
		where
			C: Iterator<Item = Result<DecodedChar, E>>,
		{
			let Meta(d, i) = scan_string(parser)?;
			Ok(Meta(Key(d), i))
		}
	}

	#[derive(Clone, Copy, PartialEq, Eq, PartialOrd, Ord, Hash, Debug)]
	pub enum Value {
		Null,
		Boolean(bool),
		Number(NumberBuf),
		String(String),
		Array(Array),
		Object(Object),
	}

	impl Value {
		pub fn sig(&self) -> Sig {
			let mut s = Sig::new();
			match self {
				Value::Null => s.push(1),
				Value::Boolean(false) => s.push(2),
				Value::Boolean(true) => s.push(3),
				Value::Number(n) => s.d3(0x40, n.0),
				Value::String(t) => s.d3(0x50, t.0),
				Value::Array(a) => {
					s = a.sig;
					s.push(7);
				}
				Value::Object(o) => {
					s = o.sig;
					s.push(9);
				}
			}
			s
		}
	}

	#[derive(Clone, Copy, PartialEq, Eq, PartialOrd, Ord, Hash, Debug)]
	pub struct Array {
		pub sig: Sig,
		pub count: u32,
	}

	impl Array {
		#[allow(clippy::new_without_default)]
		pub fn new() -> Self {
			let mut sig = Sig::new();
			sig.push(6);
			Array { sig, count: 0 }
		}

		pub fn push(&mut self, v: Value) {
			let s = v.sig();
			self.sig.append(&s);
			self.count += 1;
		}
	}

	#[derive(Clone, Copy, PartialEq, Eq, PartialOrd, Ord, Hash, Debug)]
	pub struct Object {
		pub sig: Sig,
		pub count: u32,
	}

	impl Object {
		#[allow(clippy::new_without_default)]
		pub fn new() -> Self {
			let mut sig = Sig::new();
			sig.push(8);
			Object { sig, count: 0 }
		}

		pub fn push(&mut self, key: Key, v: Value) -> bool {
			self.sig.d3(0xA0, key.0);
			let s = v.sig();
			self.sig.append(&s);
			self.count += 1;
			true
		}
	}
}

/// src/parse/object.rs compiled against the model `Key` (see gen_driver.py)
#[allow(dead_code, unused_imports, clippy::all)]
pub mod object {
	include!(concat!(env!("JSON_SYNTAX_VERIF_DIR"), "/incrate/gen_driver_object.rs"));
}

#[allow(dead_code, unused_imports, clippy::all)]
pub mod value {
	include!(concat!(env!("JSON_SYNTAX_VERIF_DIR"), "/incrate/gen_driver_value.rs"));
}

// ---------------------------------------------------------------------------
// Reference: a flat, single-pass pushdown recogniser of RFC 8259 documents
// (one character per loop iteration, explicit container stack), written from
// the grammar. It yields the verdict, the index of the first character after
// the longest viable prefix, the pre-order token stream and the code map
// (fragment spans in CHARACTER indices; the harness converts to bytes).

pub const M: usize = 12;

#[derive(Clone, Copy, PartialEq, Eq)]
enum St {
	Value,      // a value must start here (whitespace allowed before it)
	ValueOrEnd, // right after '[': a value or ']'
	KeyOrEnd,   // right after '{': a key or '}'
	Key,        // after ',' inside an object: a key
	Colon,      // after a key
	After,      // after a complete value
	Lit,
	Num,
	Str,
	Esc,
	Hex,
}

pub struct RefDoc {
	pub ok: bool,
	/// character index reported by the Unexpected error (== input length at end of input)
	pub err: usize,
	/// a \uXXXX escape denotes a surrogate code unit: decided at unit level (C12), not here
	pub surrogate: bool,
	pub sig: model::Sig,
	pub cnt: usize,
	pub st: [usize; M],
	pub en: [usize; M],
	pub vol: [usize; M],
}

pub fn utf8_first(c: char) -> u8 {
	let u = c as u32;
	if u < 0x80 {
		u as u8
	} else if u < 0x800 {
		0xC0 | (u >> 6) as u8
	} else if u < 0x10000 {
		0xE0 | (u >> 12) as u8
	} else {
		0xF0 | (u >> 18) as u8
	}
}

pub fn utf8_last(c: char) -> u8 {
	let u = c as u32;
	if u < 0x80 {
		u as u8
	} else {
		0x80 | (u & 0x3F) as u8
	}
}

const ARR: u8 = 1;
const OBJ: u8 = 2;

pub fn ref_doc(a: &[char]) -> RefDoc {
	let n = a.len();
	let mut r = RefDoc {
		ok: false,
		err: 0,
		surrogate: false,
		sig: model::Sig::new(),
		cnt: 0,
		st: [0; M],
		en: [0; M],
		vol: [0; M],
	};
	let mut st = St::Value;
	// open containers
	let mut depth = 0usize;
	let mut kind = [0u8; M];
	let mut cidx = [0usize; M]; // code-map index of the container
	let mut eidx = [0usize; M]; // code-map index of the object's current entry
	// scalar in progress
	let mut cur = 0usize;
	let mut is_key = false;
	let mut lit: &[u8] = b"";
	let mut lj = 0usize;
	let mut dfa = 0usize;
	let mut hexn = 0u8;
	let mut cu = 0u32;
	let mut blen = 0usize; // bytes of the scalar so far
	let mut first = 0u8;
	let mut last = 0u8;

	macro_rules! fail {
		($i:expr) => {{
			r.err = $i;
			return r;
		}};
	}
	macro_rules! reserve {
		($start:expr) => {{
			if r.cnt >= M {
				fail!(n + 1); // cannot happen for n <= M (every fragment owns a character)
			}
			r.st[r.cnt] = $start;
			r.cnt += 1;
			r.cnt - 1
		}};
	}
	// a complete value ended before character index $end
	macro_rules! finish_value {
		($end:expr) => {{
			if depth > 0 && kind[depth - 1] == OBJ {
				let e = eidx[depth - 1];
				r.en[e] = $end;
				r.vol[e] = r.cnt - e;
			}
			st = St::After;
		}};
	}
	macro_rules! close_container {
		($i:expr, $tok:expr) => {{
			let c = cidx[depth - 1];
			r.en[c] = $i + 1;
			r.vol[c] = r.cnt - c;
			r.sig.push($tok);
			depth -= 1;
			finish_value!($i + 1);
		}};
	}
	macro_rules! add_char {
		($c:expr) => {{
			let ch: char = $c;
			if blen == 0 {
				first = utf8_first(ch);
			}
			last = utf8_last(ch);
			blen += crate::verif::util::utf8_len(ch);
		}};
	}
	macro_rules! scalar_sig {
		($kind:expr) => {{
			let l = if blen > 15 { 15 } else { blen };
			r.sig.push($kind | l as u8);
			if blen == 0 {
				r.sig.push(0);
				r.sig.push(0);
			} else {
				r.sig.push(first);
				r.sig.push(last);
			}
		}};
	}

	let mut i = 0usize;
	while i <= n {
		let c = at(a, i);
		if st == St::Num {
			let t = match c {
				Some(ch) => NUM_DFA[dfa][num_class(ch)],
				None => 255,
			};
			if t != 255 {
				dfa = t as usize;
				if let Some(ch) = c {
					last = ch as u8;
				}
				blen += 1;
				i += 1;
				continue;
			}
			if !NUM_ACCEPTING[dfa] {
				fail!(i);
			}
			r.en[cur] = i;
			r.vol[cur] = 1;
			scalar_sig!(0x40);
			finish_value!(i);
			// the character is looked at again below, in state After
		}
		match st {
			St::Value | St::ValueOrEnd => match c {
				Some(ch) if ws(ch) => (),
				Some(']') if st == St::ValueOrEnd => close_container!(i, 7),
				Some('n') | Some('t') | Some('f') => {
					cur = reserve!(i);
					lit = match c {
						Some('n') => b"null",
						Some('t') => b"true",
						_ => b"false",
					};
					lj = 1;
					st = St::Lit;
				}
				Some('-') | Some('0'..='9') => {
					cur = reserve!(i);
					let ch = match c {
						Some(ch) => ch,
						None => '0',
					};
					dfa = NUM_DFA[0][num_class(ch)] as usize;
					blen = 1;
					first = ch as u8;
					last = ch as u8;
					st = St::Num;
				}
				Some('"') => {
					cur = reserve!(i);
					is_key = false;
					blen = 0;
					st = St::Str;
				}
				Some('[') => {
					let x = reserve!(i);
					kind[depth] = ARR;
					cidx[depth] = x;
					depth += 1;
					r.sig.push(6);
					st = St::ValueOrEnd;
				}
				Some('{') => {
					let x = reserve!(i);
					kind[depth] = OBJ;
					cidx[depth] = x;
					depth += 1;
					r.sig.push(8);
					st = St::KeyOrEnd;
				}
				_ => fail!(i),
			},
			St::KeyOrEnd | St::Key => match c {
				Some(ch) if ws(ch) => (),
				Some('}') if st == St::KeyOrEnd => close_container!(i, 9),
				Some('"') => {
					let e = reserve!(i);
					eidx[depth - 1] = e;
					cur = reserve!(i);
					is_key = true;
					blen = 0;
					st = St::Str;
				}
				_ => fail!(i),
			},
			St::Colon => match c {
				Some(ch) if ws(ch) => (),
				Some(':') => st = St::Value,
				_ => fail!(i),
			},
			St::After => {
				if depth == 0 {
					match c {
						Some(ch) if ws(ch) => (),
						None => {
							r.ok = true;
							return r;
						}
						_ => fail!(i),
					}
				} else if kind[depth - 1] == ARR {
					match c {
						Some(ch) if ws(ch) => (),
						Some(',') => st = St::Value,
						Some(']') => close_container!(i, 7),
						_ => fail!(i),
					}
				} else {
					match c {
						Some(ch) if ws(ch) => (),
						Some(',') => st = St::Key,
						Some('}') => close_container!(i, 9),
						_ => fail!(i),
					}
				}
			}
			St::Lit => {
				if lj < lit.len() && c == Some(lit[lj] as char) {
					lj += 1;
					if lj == lit.len() {
						r.en[cur] = i + 1;
						r.vol[cur] = 1;
						r.sig.push(if lit.len() == 5 {
							2
						} else if lit[0] == b't' {
							3
						} else {
							1
						});
						finish_value!(i + 1);
					}
				} else {
					fail!(i);
				}
			}
			St::Num => (), // handled above (state left before this match)
			St::Str => match c {
				None => fail!(n),
				Some('"') => {
					r.en[cur] = i + 1;
					r.vol[cur] = 1;
					if is_key {
						scalar_sig!(0xA0);
						st = St::Colon;
					} else {
						scalar_sig!(0x50);
						finish_value!(i + 1);
					}
				}
				Some('\\') => st = St::Esc,
				Some(ch) if (ch as u32) < 0x20 => fail!(i),
				Some(ch) => add_char!(ch),
			},
			St::Esc => {
				st = St::Str;
				match c {
					Some('"') => add_char!('"'),
					Some('\\') => add_char!('\\'),
					Some('/') => add_char!('/'),
					Some('b') => add_char!('\u{8}'),
					Some('f') => add_char!('\u{c}'),
					Some('n') => add_char!('\n'),
					Some('r') => add_char!('\r'),
					Some('t') => add_char!('\t'),
					Some('u') => {
						hexn = 0;
						cu = 0;
						st = St::Hex;
					}
					_ => fail!(i),
				}
			}
			St::Hex => match c {
				Some(ch) => match hexval(ch) {
					Some(h) => {
						cu = cu * 16 + h;
						hexn += 1;
						if hexn == 4 {
							st = St::Str;
							match char::from_u32(cu) {
								Some(x) => add_char!(x),
								None => {
									r.surrogate = true;
									return r;
								}
							}
						}
					}
					None => fail!(i),
				},
				None => fail!(n),
			},
		}
		i += 1;
	}
	r
}

// ---------------------------------------------------------------------------
// harness: the driver on every character array of length N

/// character from a 16-element structural alphabet (selector symbolic)
#[cfg(kani)]
pub fn alpha16() -> char {
	const A: [char; 16] = ['[', ']', '{', '}', ',', ':', '"', ' ', '1', '-', 'n', 'u', 'l', 'a', '\\', '\u{e9}'];
	let k: u8 = kani::any();
	kani::assume(k < 16);
	A[k as usize]
}

#[cfg(kani)]
pub fn any_char() -> char {
	kani::any()
}

pub fn check_doc(a: &[char], base: usize, p: &super::P, r: Result<Meta<model::Value, usize>, Error<core::convert::Infallible>>, want: &RefDoc, pulled: usize) {
	let n = a.len();
	if want.surrogate {
		core::mem::forget(r);
		return;
	}
	match r {
		Ok(Meta(v, i)) => {
			assert!(want.ok, "C01:document-accepted-only-if-exactly-one-rfc8259-value");
			let s = v.sig();
			if !want.sig.overflow {
				assert!(s.same(&want.sig), "C02:document-content-items-and-entries-in-source-order");
			}
			assert!(i == 0, "C05:root-fragment-is-entry-0");
			let cm = p.code_map.as_slice();
			assert!(cm.len() == want.cnt, "C05:one-code-map-entry-per-fragment");
			macro_rules! entry {
				($($k:expr),*) => { $(
					if $k < want.cnt && $k < cm.len() {
						let e = &cm[$k];
						assert!(e.span.start() == off(a, base, want.st[$k]) && e.span.end() == off(a, base, want.en[$k]), "C05:fragment-span-is-its-source-text");
						assert!(e.volume == want.vol[$k], "C05:fragment-volume-is-its-subtree-size");
					}
				)* };
			}
			entry!(0, 1, 2, 3, 4, 5, 6, 7, 8, 9, 10, 11);
			assert!(p.position == off(a, base, n) && p.pending.is_none(), "C01:whole-input-consumed");
			assert!(pulled == n, "C01:single-pass");
			core::mem::forget(v);
		}
		Err(e) => {
			assert!(!want.ok, "C01:document-accepted-when-exactly-one-rfc8259-value");
			assert!(is_unexpected(&e, off(a, base, want.err), at(a, want.err)), "C07:document-error-at-first-non-viable-character");
			assert!(pulled <= want.err + 1, "C01:single-pass");
			core::mem::forget(e);
		}
	}
}

pub fn no_backslash(b: &[char; 12], n: usize) -> bool {
	let mut ok = true;
	macro_rules! nb { ($($k:expr),*) => { $( if $k < n && b[$k] == '\\' { ok = false; } )* }; }
	nb!(0, 1, 2, 3, 4, 5, 6, 7, 8, 9, 10, 11);
	ok
}

macro_rules! drv_doc {
	($name:ident, $n:expr, $unwind:expr, $gen:ident) => {
		#[cfg(kani)]
		#[kani::proof]
		#[kani::unwind($unwind)]
		#[kani::stub(smallvec::SmallVec::try_grow, crate::verif::util::no_grow)]
		fn $name() {
			const N: usize = $n;
			let backing: [char; 12] = [$gen(), $gen(), $gen(), $gen(), $gen(), $gen(), $gen(), $gen(), $gen(), $gen(), $gen(), $gen()];
			let a = &backing[..N];
			// the string units are represented by their contract model, valid without escapes
			kani::assume(no_backslash(&backing, N));
			let pulled = Cell::new(0);
			let base = any_base();
			let opts = any_options();
			let mut p = parser_at(a, &pulled, base, 0, opts);
			kani::cover!(value::GENERATED_OK && object::GENERATED_OK);
			let r = <model::Value as Parse>::parse_in(&mut p, Context::None);
			let want = ref_doc(a);
			kani::cover!(want.ok);
			kani::cover!(!want.ok && !want.surrogate);
			kani::cover!(N < 2 || (want.ok && want.cnt >= 2));
			check_doc(a, base, &p, r, &want, pulled.get());
			core::mem::forget(p);
		}
	};
}

drv_doc!(drv_doc_n1, 1, 4, any_char);
drv_doc!(drv_doc_n2, 2, 5, any_char);
drv_doc!(drv_doc_n3, 3, 6, any_char);
drv_doc!(drv_doc_n4, 4, 7, any_char);
drv_doc!(drv_doc_n5, 5, 8, any_char);
drv_doc!(drv_doc_n6, 6, 9, any_char);
drv_doc!(drv_doc_a6, 6, 9, alpha16);
drv_doc!(drv_doc_a7, 7, 10, alpha16);
drv_doc!(drv_doc_a8, 8, 11, alpha16);

