#!/bin/sh
# Run once after a fresh restore, offline. Nothing is fetched: the harness crate
# is compiled by ./check itself on every run (so that it always encodes /repo's
# current working tree); this only verifies that the tool chain is present and
# warms the dependency build of the external harness crate.
set -e
cd "$(dirname "$0")"
export CARGO_NET_OFFLINE=true
cargo kani --version
cbmc --version
cp /repo/Cargo.lock kani/Cargo.lock
mkdir -p evidence replays
# native self-test of the harness-side reference functions
(cd kani && cargo test --offline -q 2>&1 | tail -n 3)
echo "setup ok"
