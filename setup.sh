#!/bin/sh
# Run once after a fresh restore, offline. Nothing is fetched: the harness crates
# are compiled by ./check itself on every run (so that they always encode /repo's
# current working tree); this only verifies that the tool chain is present and
# runs the native self-tests of the harness-side reference functions.
set -e
cd "$(dirname "$0")"
export CARGO_NET_OFFLINE=true
cargo kani --version
cbmc --version
cargo +nightly --version                      # MIR dumps for the second engine (drv/)
python3-vt -c "import z3; print('z3', z3.get_version_string())"
cp /repo/Cargo.lock kani/Cargo.lock
mkdir -p evidence replays
# native self-test of the harness-side reference functions
(cd kani && cargo test --offline -q 2>&1 | tail -n 3)
echo "setup ok"
