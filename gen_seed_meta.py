#!/usr/bin/env python3
"""Development aid: writes seeded/<id>/meta.json from the README of each seeded change and the
evaluation log .build/logs/seed-summary.txt (last result per (seed, check) wins)."""
import json, os, re, sys
V = os.path.dirname(os.path.realpath(__file__))
res = {}
for line in open(os.path.join(V, ".build/logs/seed-summary.txt")):
	m = re.match(r"^(\S+) (\S+?):(\S*) rc=(\d+) violations=(\d+) (\d+)s", line.strip())
	if m:
		res.setdefault(m.group(1), {})["%s:%s" % (m.group(2), m.group(3))] = dict(exit=int(m.group(4)), violation_lines=int(m.group(5)), seconds=int(m.group(6)))
props = {"V1": "C01/C07 (confined to src/parse/value.rs)", "V2": "C02/C05 (confined to src/parse/value.rs)"}
for d in sorted(os.listdir(os.path.join(V, "seeded"))):
	p = os.path.join(V, "seeded", d)
	if not os.path.isdir(p):
		continue
	readme = open(os.path.join(p, "README.md")).read() if os.path.exists(os.path.join(p, "README.md")) else ""
	pid = d.split("-")[0]
	runs = res.get(d, {})
	caught = sorted(k for k, v in runs.items() if v["exit"] == 1 and v["violation_lines"] > 0)
	meta = dict(
		id=d,
		property=props.get(pid, pid),
		source="independent sub-agent given only the property text and a scratch worktree",
		what_it_needs_to_manifest=re.sub(r"\s+", " ", readme)[:900],
		confirmed=dict(how="/tmp/mut/confirm.sh in the agent's scratch worktree (removed afterwards): cargo build (default and --features canonicalize); cargo test --workspace --no-fail-fast with the change; tests/seeded_demo.rs with and without the change",
		               builds=True, existing_suite="381 passed / 0 failed with the change applied", demo_fails_with_change=True, demo_passes_without=True),
		checks_run=[dict(check="./check %s --tier quick --only %s (on a scratch worktree with the patch applied, VERIF_REPO)" % tuple(k.split(":", 1)), **v) for k, v in sorted(runs.items())],
		caught_by=caught,
		verdict="caught" if caught else ("not caught (see DESIGN.md section 8)" if runs else "not evaluated against a check (no check targets this mechanism; see DESIGN.md section 8)"),
	)
	json.dump(meta, open(os.path.join(p, "meta.json"), "w"), indent=1)
print("meta written for", len(os.listdir(os.path.join(V, "seeded"))))
