#!/bin/bash
cd /verif
run() { ./seed_eval.sh /verif/seeded/$1 "${@:2}"; }
while pgrep -f "seed_queue2.s[h]" >/dev/null || pgrep -f "run_some.sh new[5]" >/dev/null; do sleep 20; done
run C14-3 C14:obj::
run C05-3 C05:s1_object_continue_shaped
run C01-3 C01:l5_null_slice_with_n5
VERIF_MEM_GB=28 run C11-1 C11:c11_object_mapped_abb
echo ALLDONE6 >> .build/logs/seed-summary.txt
