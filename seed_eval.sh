#!/bin/bash
# development aid: seed_eval.sh SEEDDIR "PROP:ONLY" ...
# Applies SEEDDIR/patch.diff to a SCRATCH worktree of /repo (under /var/tmp, removed
# afterwards) and runs the given checks against it via VERIF_REPO; /repo is not touched.
d=$1; shift
cd /verif
mkdir -p .build/logs
name=$(basename $d)
w=/var/tmp/jsv-seed-$name
git -C /repo worktree remove --force $w 2>/dev/null; rm -rf $w
git -C /repo worktree add -q --detach $w HEAD || exit 9
cp /repo/Cargo.lock $w/ 2>/dev/null; git -C $w apply $d/patch.diff || { echo "$name: patch does not apply"; git -C /repo worktree remove --force $w; exit 8; }
for po in "$@"; do
  p=${po%%:*}; o=${po#*:}
  s=$(date +%s)
  log=.build/logs/seed-$name-$p-$(echo $o | tr -c 'A-Za-z0-9_' '_').log
  VERIF_REPLAY_DIR=/verif/.build/seed-replays/$name VERIF_REPO=$w VERIF_JOBS=${VERIF_JOBS:-4} ./check $p --tier ${TIER:-quick} --only "$o" --no-evidence > $log 2>&1
  rc=$?
  v=$(grep -c "^VIOLATION" $log)
  echo "$name $po rc=$rc violations=$v $(( $(date +%s) - s ))s" | tee -a .build/logs/seed-summary.txt
done
git -C /repo worktree remove --force $w
rm -rf $w
