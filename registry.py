"""
Registry of Kani harnesses per property.

name   fully qualified harness name (`--harness <name> --exact`)
crate  "ext" = /verif/kani (public API only), "in" = in-crate module under
       cfg(json_syntax_verif) included from /verif/incrate/*.rs
tier   "quick" harnesses run in both tiers, "thorough" ones only in thorough
cap    per-harness CBMC time cap in seconds (a harness that hits it is
       reported inconclusive, never as a pass)
sym    what is symbolic (the set the solver quantifies over)
bound  the stated bound
"""


def H(name, crate, tier, cap, sym, bound, gb=2.0):
	"""gb = expected peak memory of the CBMC process (scheduling weight)."""
	return dict(name=name, crate=crate, tier=tier, cap=cap, sym=sym, bound=bound, gb=gb)


COMMON_ASSUMPTIONS = [
	"trusted base: rustc (Kani's pinned nightly), Kani 0.68 MIR->goto translation and its models of alloc/intrinsics, CBMC 6.11, cadical",
	"core/alloc library code reached by the harness is encoded as compiled (Vec, char::from_u32, to_digit, encode_utf8, str comparison, fmt::write)",
	"hashbrown::raw::RawTable and ahash are replaced under cfg(json_syntax_verif) by the contract-checking model table in /verif/incrate/lib.rs (hashbrown/ahash trusted, not verified)",
	"harness-side reference functions (a few dozen lines each, /verif/kani/src and /verif/incrate) are correct; they are cross-checked natively by `cargo test` in /verif/kani",
	"a claim is for all values of the listed symbolic inputs within the stated bound; nothing outside the bound is claimed; unwinding assertions are on, so a too-small bound fails instead of truncating",
]

STUB_GROW = "kani::stub smallvec::SmallVec::try_grow -> panic (strings/keys/numbers stay within the 16-byte inline capacity; reaching growth fails the harness)"

PROPS = {}

HOOK_COMMITS = ["ebc560a", "6057354", "a1c2a09"]

NOTES = (
	"Technique family: solver-based checking of the real code. Every check is a set of Kani proof harnesses over "
	"functions compiled from /repo's current working tree; CBMC+cadical decide each assertion for all values of the "
	"symbolic inputs within the stated bounds (unwinding assertions on). Exit 2 = inconclusive (timeout, memory, "
	"unsatisfied cover, non-reproducing counter-example); it is never reported as a pass. The driver loop of "
	"Value::parse_in (src/parse/value.rs), which CBMC cannot finish, is decided by a second solver-based engine: symbolic execution of its "
	"MIR (compiler dump of the current tree) with z3 over contract models of its callees, for all documents up to a length bound (drv/, DESIGN.md §0)."
)

# Properties not claimed. Kept current: an id is dropped from this table when a
# check for it is registered in PROPS.
NOT_APPLICABLE = {
	"C03": "unbounded resource property (stack use independent of nesting depth up to 10^6 levels, no stack overflow, termination on inputs of any length): a bounded technique says nothing about it — the driver check (MIR + z3) covers documents of <= 9 characters, i.e. nesting depth <= 9, and CBMC does not take whole-document parsing even at depth 1. Within those bounds, absence of panics and single-pass consumption of the parser units and of the driver loop are by-products reported under C01/C07 (a reachable panic is a failed check there); the claim that matters in C03, independence from depth, is not bounded and belongs to a proof about the explicit stack, not to a solver query",
	"C15": "mutual recursion of unordered_eq over heap Value/Object trees: the smallest non-trivial instances (2 entries per side; 3 for multiplicities) did not finish in 30-68 min under CBMC; what fits (scalars, 1-entry objects) does not exercise the property",
	"C16": "serde derive/visitor plumbing (dyn dispatch), heap containers and float<->text conversion are outside CBMC's reach at any bound that completes",
	"C17": "same as C16; additionally rooted in json-number's lexical float parsing (symbolic-by-symbolic multiplication, floating point)",
	"C18": "serde_json Map/Number containers and float conversions: heap- and float-heavy library code outside CBMC's reach",
	"C19": "quantifies over compile-time macro input (token trees munched by macro_rules!); there is no run-time input to make symbolic and the oracle (parsing the same text) is whole-document parsing, itself out of reach",
}

# Claimed in DESIGN.md but whose check is not registered yet (construction
# order); entries disappear as soon as PROPS gets the id.
for _pid in ["C01", "C02", "C04", "C05", "C06", "C07", "C08", "C09", "C10", "C11", "C12", "C13", "C14"]:
	NOT_APPLICABLE.setdefault(_pid, "not claimed yet: the check designed in DESIGN.md §4 for this property is not registered at this commit")

# ---------------------------------------------------------------------------
PROPS["C20"] = dict(
	design_ref="DESIGN.md §4 C20",
	level_text="Bounded model checking that is complete for this property: the domain is finite (64 sets, 6 kinds) and each harness quantifies over all of it symbolically, so within the trusted base every operator, iterator interleaving (8 steps) and rendering is decided for every operand.",
	level_note="Trusted: Kani/CBMC/cadical, core::fmt as compiled, the 20-line reference renderer (cross-checked natively against the crate's doc examples). Sets are built from the public constants and observed through the iterator.",
	exhaustive=True,
	functions=[
		"json_syntax::kind::{KindSet,Kind} BitOr/BitAnd/BitOrAssign/BitAndAssign (all operand combinations)",
		"KindSet::{none,all,len,is_empty,iter,from,default}", "KindSetIter::{next,next_back,size_hint,len}",
		"Display for Kind/KindSet/KindSetDisjunction/KindSetConjunction", "Value::{kind,is_kind,is_null,..,is_object}",
	],
	bounds="complete finite domain: all 64 sets, 64x64 set pairs, 64x6 set/kind and 6x6 kind pairs, every interleaving of 8 next/next_back calls; renderings into a 48-byte sink (longest rendering is 44 bytes)",
	outside=[],
	stubs=[],
	assumptions=["sets are constructed from the public constants with set|set and observed through the forward iterator"],
	harnesses=[
		H("c20::c20_construct_observe", "ext", "quick", 120, "b, c: u8 < 64 (all sets, all pairs for ==)", "unwind 8"),
		H("c20::c20_ops_set_set", "ext", "quick", 120, "a, b: u8 < 64 (all 64x64 pairs)", "unwind 8"),
		H("c20::c20_ops_with_kind", "ext", "quick", 120, "a: u8 < 64, i, j: kind index < 6", "unwind 8"),
		H("c20::c20_iter_interleavings", "ext", "quick", 300, "b: u8 < 64, choice: u8 (front/back per step, 8 steps)", "unwind 10"),
		H("c20::c20_render_display", "ext", "quick", 900, "b: u8 < 64", "unwind 10, 48-byte sink"),
		H("c20::c20_render_disjunction", "ext", "quick", 900, "b: u8 < 64", "unwind 10, 48-byte sink"),
		H("c20::c20_render_conjunction", "ext", "quick", 900, "b: u8 < 64", "unwind 10, 48-byte sink"),
		H("c20::c20_kind_display", "ext", "quick", 120, "i: kind index < 6", "unwind 10"),
		H("c20::c20_value_kind", "ext", "quick", 120, "variant index < 6, boolean payload, queried kind index < 6", "unwind 4"),
	],
)

# ---------------------------------------------------------------------------
_OPT_P1 = "option record: every numeric field <= 4096, indent Spaces(0..=4)|Tabs(0..=2), both limits over None|Always|Item(<=8)|Width(<=65536)|ItemOrWidth; children: symbolic Size (Expanded | Width(<=4096)), child i pushes (i+1)%3 slots; (k+1)%2 pre-existing slots"
_OPT_P2 = "option record: every numeric field 0..=3, indent Spaces(0..=4)|Tabs(0..=2), depth 0..=2, own slot at index 0..=1 holding Expanded or Width(any); children: one symbolic ASCII byte and 0..=2 consumed slots each"

PROPS["C13"] = dict(
	design_ref="DESIGN.md §4 C13",
	level_text="Bounded model checking of the real layout kernels with a fully symbolic option record: the size decision (pre_compute_array_size / pre_compute_object_size) and the emission (print_array / print_object) are each decided for ALL option records within the field bounds and for ARBITRARY children (a child is abstracted by its symbolic Size / emitted byte / consumed slots), which is the inductive step over the value tree; printed_string_size is decided for every scalar value.",
	level_note="One container level per query, k <= 3 children (k <= 2 for object emission); the recursion wrappers (Value::pre_compute_size, impl Print for Value allocating `sizes`, Object's entry iterator adaptor) are exercised only on scalar values (C08/C04 harnesses) - their lock-step recursion over heap trees is read-only, outside the claim. Reference layout written from the field documentation of print::Options.",
	functions=["json_syntax::print::pre_compute_array_size", "json_syntax::print::pre_compute_object_size", "json_syntax::print::print_array",
	           "json_syntax::print::print_object", "json_syntax::print::printed_string_size", "json_syntax::print::string_literal",
	           "Display for Indent/IndentBy/Spaces", "Size::add"],
	bounds="k <= 3 children per level (object emission k <= 2); decision: numeric fields <= 4096, widths <= 4096; emission: numeric fields <= 3, indent unit <= 4 spaces / 2 tabs, depth <= 2, output <= 96 bytes; keys: one arbitrary Unicode scalar value",
	outside=["fields/widths above the bounds", "more than 3 children per level", "the printer proper (P2) on objects of two or more entries under symbolic options (the k=2 instance does not complete: CBMC gives up after 6 min / 12 GB; arrays go to k=3, objects to k=1)", "recursion wrappers over heap Value trees (lock-step consumption of `sizes`)", "keys longer than one character (string_literal itself: C08)"],
	stubs=[],
	assumptions=["children are abstracted by (Size, slots pushed) for the decision and by (one ASCII byte, slots consumed) for the emission: the kernels are generic over the child type, so this covers any subtree"],
	harnesses=[
		H("print::c13_p1_array_k0", "ext", "quick", 300, _OPT_P1, "k=0, unwind 5"),
		H("print::c13_p1_array_k1", "ext", "quick", 300, _OPT_P1, "k=1, unwind 5"),
		H("print::c13_p1_array_k2", "ext", "quick", 300, _OPT_P1, "k=2, unwind 5"),
		H("print::c13_p1_array_k3", "ext", "quick", 600, _OPT_P1, "k=3, unwind 5"),
		H("print::c13_p1_object_k0", "ext", "quick", 300, _OPT_P1 + "; keys: any char", "k=0, unwind 5"),
		H("print::c13_p1_object_k1", "ext", "quick", 300, _OPT_P1 + "; keys: any char", "k=1, unwind 5"),
		H("print::c13_p1_object_k2", "ext", "quick", 600, _OPT_P1 + "; keys: any char", "k=2, unwind 5"),
		H("print::c13_p1_object_k3", "ext", "quick", 900, _OPT_P1 + "; keys: any char", "k=3, unwind 5"),
		H("print::c13_p2_array_k0", "ext", "quick", 600, _OPT_P2, "k=0, unwind 6, 24-byte sink"),
		H("print::c13_p2_array_k1", "ext", "quick", 900, _OPT_P2, "k=1, unwind 6, 48-byte sink"),
		H("print::c13_p2_array_k2", "ext", "quick", 1200, _OPT_P2, "k=2, unwind 6, 64-byte sink"),
		H("print::c13_p2_array_k3", "ext", "thorough", 3600, _OPT_P2, "k=3, unwind 6, 80-byte sink"),
		H("print::c13_p2_object_k0", "ext", "quick", 600, _OPT_P2, "k=0, unwind 6, 24-byte sink"),
		H("print::c13_p2_object_k1", "ext", "quick", 1200, _OPT_P2 + "; keys: any char", "k=1, unwind 6, 64-byte sink"),
			H("print::c08_string_literal_1char", "ext", "quick", 900, "c: any Unicode scalar value (1,112,064 one-character strings)", "unwind 6"),
		H("print::c08_string_literal_2chars", "ext", "quick", 900, "c1, c2 from a 12-character escape-relevant alphabet", "unwind 6"),
		H("print::c13_indent_is_depth_times_unit", "ext", "quick", 900, "indent unit Spaces(n)|Tabs(n), n <= 24, depth <= 4, n*depth <= 96; probe index symbolic", "unwind 26"),
	],
)

# ---------------------------------------------------------------------------
# parser units (in-crate). One harness family serves several properties; the
# assertion labels (C01:.., C02:.., C05:.., C07:.., C12:..) say which.
_CH = "each character any Unicode scalar value; parser base offset <= 2^20; both option flags symbolic; context symbolic over the four contexts"
L1 = [H("parse::verif::l1_whitespace_and_follow_sets", "in", "quick", 120, "c: any Unicode scalar value, context: all four", "no loop")]
L2 = [H("parse::verif::l2_bool_n%d" % n, "in", "quick", 300, "%d characters, %s" % (n, _CH), "n=%d, unwind 7" % n) for n in (0, 3, 4, 5, 6)] + \
     [H("parse::verif::l2_null_n%d" % n, "in", "quick", 300, "%d characters, %s" % (n, _CH), "n=%d, unwind 7" % n) for n in (0, 3, 4, 5)]
L3 = [H("parse::verif::l3_number_n%d" % n, "in", "quick" if n <= 6 else "thorough", 900 if n <= 6 else 3600,
        "%d characters, %s" % (n, _CH), "n=%d, unwind %d" % (n, n + 2)) for n in range(0, 9)]

L4 = [H("parse::verif::l4_string_n%d" % n, "in", "quick" if n <= 4 else "thorough", 1800 if n <= 4 else 5400,
        "%d characters (the opening quote position included), %s" % (n, _CH), "n=%d, unwind %d" % (n, max(3, n + 1))) for n in range(0, 6)]
L4A = [H("parse::verif::l4_alpha_n%d" % n, "in", "quick" if n <= 6 else "thorough", 1800 if n <= 6 else 5400,
         "opening quote + %d characters over the 12-character alphabet {\" \\ u n / a 0 d 8 c U+001F U+00E9}; base offset; both option flags" % (n - 1),
         "n=%d, unwind %d" % (n, n + 1)) for n in (6, 7, 8)]
_SH = "hex digit VALUES and per-digit case bits symbolic (all spellings of all code units in the class), raw characters any scalar >= U+0020 except quote/backslash; base offset; both option flags"
D1 = [H("parse::verif::d1_escape_any", "in", "quick", 900, "one \\uXXXX escape, all 65,536 code units x 2^4 case choices; " + _SH, "unwind 3"),
      H("parse::verif::d1_escape_any_any", "in", "quick", 1800, "two \\uXXXX escapes, all 2^32 digit combinations x 2^8 case choices; " + _SH, "unwind 4")]
_S1 = ["h", "l", "o", "r", "e"]
_S2 = ["hh", "hl", "ho", "hr", "he", "lh", "ll", "lo", "lr", "oh", "ol", "oo", "or", "rh", "rl", "ro", "rr"]
_S3 = ["hhl", "hlh", "hll", "lhl", "hrl", "hel", "rhl", "hlr", "ohl", "hol", "lll", "hhh", "h_open", "hl_open"]
SH = [H("parse::verif::c12_" + s_, "in", "quick", 1200, "elements " + s_ + " (h high-surrogate escape, l low-surrogate escape, o other \\uXXXX, r raw character, e two-character escape); " + _SH, "unwind %d" % (len(s_) + 2)) for s_ in _S1 + _S2] + \
     [H("parse::verif::c12_" + s_, "in", "thorough", 3600, "elements " + s_ + "; " + _SH, "unwind %d" % (len(s_.replace("_open", "")) + 2)) for s_ in _S3]


# ---------------------------------------------------------------------------
_IM = "object::index_map::verif::"
I1 = [H(_IM + "i1_indexes_%d" % n, "in", "quick", 600,
        "Indexes with %d position(s): all ascending position tuples < 8; operation (insert/remove/shift_up/shift_down) and its argument i < 9 symbolic" % n,
        "unwind 7") for n in (1, 2, 3, 4)]
_PAT1 = ["a"]
_PAT2 = ["aa", "ab"]
_PAT3 = ["aaa", "aab", "aba", "abb", "abc"]
_K3 = "key-equality pattern %s concrete (shape of the index), key identities symbolic: an arbitrary permutation of {a, b, c, ''} assigned to the classes (a, c, '' collide under the model hasher, b does not)"
I2 = [H(_IM + "i2_insert_" + p_, "in", "quick", 900, (_K3 % p_) + "; pre-state = canonical index of all but the last entry", "unwind 5") for p_ in _PAT1 + _PAT2 + _PAT3] + \
     [H(_IM + "i2_insert_front_" + p_, "in", "quick", 900, (_K3 % p_) + "; pre-state = canonical index of all but the first entry", "unwind 5") for p_ in _PAT1 + _PAT2 + _PAT3] + \
     [H(_IM + "i2_remove_" + p_, "in", "quick", 900, (_K3 % p_) + "; pre-state = canonical index; removed position symbolic", "unwind 5") for p_ in _PAT1 + _PAT2 + _PAT3] + \
     [H(_IM + "i2_clear_rebuild_" + p_, "in", "quick", 900, (_K3 % p_) + "; previous index: canonical index of another pattern with another symbolic key assignment", "unwind 5") for p_ in ("aba", "abc", "aaa")]

PROPS["C06"] = dict(
	design_ref="DESIGN.md §4 C06",
	level_text="One-step inductive bounded model checking: every index primitive is run from an ARBITRARY state satisfying the representation invariant (built by the harness, so unreachable-but-consistent states are covered too) and must re-establish the invariant and the linear-scan semantics; the Object-level operations are then checked on small objects against a list model. One inductive step covers histories of any length within the size bound.",
	level_note="hashbrown's RawTable/ahash are replaced by the contract-checking model table (trusted, not verified). Sizes: Indexes <= 4 positions < 8; IndexMap over <= 3 entries and a 4-key universe; Object operations on <= 2 entries.",
	functions=["object::index_map::Indexes::{insert,remove,shift_up,shift_down,first,len,is_redundant}",
	           "object::index_map::IndexMap::{get,insert,remove,shift_up,shift_down,clear,contains_duplicate_keys}"],
	bounds="Indexes: <= 4 positions, all < 8; IndexMap: <= 3 entries, keys in {a,b,c,''}; Object: <= 2 entries (<= 3 after the operation)",
	outside=["Object operations on >= 3 entries (only the index primitives are decided at that size)", "growth/rehash behaviour of the real hashbrown table", "keys longer than one byte"],
	stubs=[],
	assumptions=["model table: at most 4 distinct keys; insert re-hashes every stored element through the caller's hasher and asserts the stored hash (stale representative detection)"],
	harnesses=I1 + I2,
)

# ---------------------------------------------------------------------------
_PV = "parse::verif::"
S1 = [H(_PV + "s1_array_start_n%d" % n, "in", "quick", 600, "%d characters, each any Unicode scalar value; base offset; options; context" % n, "n=%d, unwind %d" % (n, max(n + 2, 5))) for n in range(0, 5)] + \
     [H(_PV + "s1_array_continue_n%d" % n, "in", "quick", 600, "%d characters, each any Unicode scalar value; base offset; index (0..2) and start of the open array entry in a 3-entry code map" % n, "n=%d, unwind %d" % (n, max(n + 2, 5))) for n in range(0, 4)] + \
     [H(_PV + "s1_object_start_n%d" % n, "in", "quick", 1800, "%d characters, each any Unicode scalar value; base offset; context" % n, "n=%d, unwind %d" % (n, max(n + 2, 5)), gb=4.0) for n in range(0, 5)] + \
     [H(_PV + "s1_object_continue_n%d" % n, "in", "quick", 1800, "%d characters, each any Unicode scalar value; base offset" % n, "n=%d, unwind %d" % (n, max(n + 2, 5)), gb=4.0) for n in range(0, 5)] + \
     [H(_PV + "s1_object_start_shaped", "in", "quick", 1800, "'{' ws? '\"' c '\"' ws? x: optional whitespace characters (any of the four), key character c any scalar >= U+0020 except quote/backslash, terminator x any non-whitespace; base offset; options", "unwind 5", gb=4.0),
      H(_PV + "s1_object_continue_shaped", "in", "quick", 1800, "ws? sep ws? '\"' c '\"' ws? x: sep any non-whitespace, c as above, x any non-whitespace; base offset; options; index and start of the open object entry", "unwind 5", gb=4.0)]
L5 = [H("utf8::l5_null_slice_n%d" % n, "ext", "quick" if n <= 4 else "thorough", 1800, "%d bytes, each any value 0..=255, through <() as Parse>::parse_slice" % n, "n=%d, unwind 7" % n, gb=3.0) for n in range(1, 6)]



L5W = [H("utf8::l5_null_slice_with_n%d" % n, "ext", "quick" if n in (3, 5) else "thorough", 1800, "%d bytes, each any value 0..=255, through <() as Parse>::parse_slice_with with both option flags symbolic" % n, "n=%d, unwind 7" % n, gb=3.0) for n in range(2, 6)]
_EPS = ["parse_str", "parse_str_with", "parse_infallible_utf8", "parse_utf8_infallible_with", "parse_utf8", "parse_utf8_with", "parse_infallible", "parse_infallible_with", "parse", "parse_with"]
EP = [H("utf8::ep_null_" + e_, "ext", "quick", 900, "5 ASCII bytes (each 0..=127) through <() as Parse>::%s; both option flags symbolic" % e_, "n=5, unwind 7") for e_ in _EPS]
EPS = [H("parse::verif::ep_options_reach_the_parser_unchanged", "in", "quick", 900, "entry point symbolic over all twelve provided methods of Parse (string, slice, char/decoded-char iterators, with and without options); both option flags symbolic; one ASCII input character", "unwind 4")]
P0 = [H("parse::verif::p0_position_advances_by_source_length", "in", "quick", 600, "3 characters (any scalar values) each with an arbitrary SOURCE length 1..=4 (DecodedChar::new), base offset", "unwind 5")]


def DRV(tier, max_n, prefix_n, cap):
	h = H("drv::documents_n%d_prefix%d" % (max_n, prefix_n), "mir", tier, cap,
	      "every character array of length <= %d (each character any Unicode scalar value except the backslash), and every array of %d such characters appended to each of 20 concrete structural prefixes (drv/drvcheck.py PREFIXES); "
	      "z3 decides the feasibility of every branch on a character and provides the counter-example characters" % (max_n, prefix_n),
	      "N <= %d, prefix continuations <= %d; no escapes (no backslash); strict options" % (max_n, prefix_n), gb=2.0)
	h["max_n"] = max_n
	h["prefix_n"] = prefix_n
	return h


DRVQ = [DRV("quick", 7, 5, 1500)]
DRVT = [DRV("thorough", 9, 7, 7200)]
_DRV_FUNCS = ["<Value as Parse>::parse_in (the explicit-stack driver loop, from MIR)", "<Fragment as Parse>::parse_in (first-character dispatch, from MIR)",
              "Fragment::value_or_parse, stack_context, From<Value> for Fragment, the closures (from MIR)"]
_DRV_ASSUME = ["driver check: the callees of src/parse/value.rs (Parser primitives, the eight parser units, Vec/Option/Try/Meta/Object::push) are replaced by contract models written from the same reference automata the Kani unit harnesses verify the real units against; "
               "the MIR interpreter and the models are cross-validated on every run against the REAL parser on the repository's own test documents (tests/inputs, those without escapes)",
               "driver check: positions are character indices on both sides (the driver only passes positions around); byte offsets are decided at unit level (p0_position_advances_by_source_length)"]


# ---------------------------------------------------------------------------
def pick(family, quick, thorough=()):
	"""Harnesses of `family` whose short name is in `quick` (tier quick) or `thorough`."""
	out = []
	for h in family:
		short = h["name"].split("::")[-1]
		if short in quick:
			out.append(dict(h, tier="quick"))
		elif short in thorough or thorough == "rest":
			out.append(dict(h, tier="thorough"))
	return out


def names(prefix, ns):
	return [prefix + str(n) for n in ns]


_OUTSIDE_PARSE = [
	"whole documents beyond the driver check's bound (longer than 7 (quick) / 9 (thorough) characters and not a <= 5 / 7 character continuation of one of the 20 structural prefixes), documents containing escapes at document level (escapes are decided at unit level), lenient options at document level",
	"the composition argument between the two engines: the Kani harnesses decide real unit == reference unit within their bounds; the driver check decides (real driver MIR composed with the reference units) == reference document recogniser; real units inside the real driver on one formula are not decided (CBMC does not finish on it, DESIGN.md section 0)",
	"FromStr for Value and the agreement of the entry points on whole documents (the entry points are decided on the null / probe units)",
	"lexemes longer than the stated per-unit bounds; strings/keys/numbers longer than 16 bytes (heap representation of smallvec)",
]
_PARSE_FUNCS = ["parse::is_whitespace", "parse::Context::follows", "<bool as Parse>::parse_in", "<() as Parse>::parse_in",
                "<NumberBuf as Parse>::parse_in", "<SmallString as Parse>::parse_in", "parse::string::parse_hex4",
                "parse::array::{StartFragment,ContinueFragment}::parse_in", "parse::object::{StartFragment,ContinueFragment}::parse_in",
                "Parser::{new_with,begin_fragment,end_fragment,peek_char,next_char,skip_whitespaces}", "Parse::parse_slice (null unit)", "CodeMap::{reserve,get_mut}"]
_PARSE_ASSUME = ["parser pre-state: arbitrary byte offset <= 2^20 already consumed and 1..=3 code-map entries already recorded (any state a document prefix can leave)",
                 "inputs are character arrays of concrete length per harness instance with symbolic contents; shaped harnesses fix the positions of quotes/escapes and leave hex digit values, case bits, raw characters and whitespace choices symbolic"]

PROPS["C01"] = dict(
	design_ref="DESIGN.md §4 C01",
	level_text="Bounded model checking of every unit the parser is composed of (whitespace/follow sets, literals, numbers in all four contexts, strings, array/object start/continue fragments, the byte-slice UTF-8 layer) against flat reference automata written from RFC 8259: for every character array within the bound the unit accepts iff the reference does, consumes exactly the lexeme, and leaves the look-ahead pending. Whole documents and the driver loop are outside the claim.",
	level_note="Two engines: Kani/CBMC for each unit against its reference automaton; MIR symbolic execution + z3 for the driver loop composed with those reference units against a document-level reference. References are table/automaton code independent of the crate's nested matches; trusted.",
	functions=_PARSE_FUNCS, bounds="literals: <= 6 chars; numbers: <= 6 (quick) / 8 (thorough) chars; strings: <= 4 (quick) / 5 (thorough) fully symbolic chars, 6-8 chars over a 12-character alphabet (thorough); fragments: <= 4 fully symbolic chars plus shaped key inputs; byte input: <= 5 bytes",
	outside=_OUTSIDE_PARSE, stubs=[STUB_GROW], assumptions=_PARSE_ASSUME,
	harnesses=L1 + L2 + pick(L3, names("l3_number_n", range(0, 7)), "rest") + pick(L4, names("l4_string_n", range(0, 5)), "rest")
	+ pick(L4A, [], "rest") + S1 + pick(L5, names("l5_null_slice_n", (1, 3, 5)), "rest") + L5W + EP + EPS,
)

PROPS["C02"] = dict(
	design_ref="DESIGN.md §4 C02",
	level_text="Bounded model checking of the decoding done by each lexical unit: every \\uXXXX escape (all 65,536 code units, all spellings), every pair of escapes (all 2^32 digit combinations: surrogate pairs combine into exactly one scalar), every raw scalar value, every two-character escape, number spellings kept byte-for-byte, literals mapped to null/true/false, keys decoded like strings.",
	level_note="Scalars and keys at unit level (Kani); that items and entries are pushed in source order with duplicates preserved, each value landing in its own slot, is decided by the driver check (MIR symbolic execution, value tree compared with the reference) for documents up to the length bound; Object::push itself is C06.",
	functions=_PARSE_FUNCS, bounds="strings: one or two escapes / up to 4 fully symbolic characters; numbers: <= 6 chars; keys: 1 character of any UTF-8 length",
	outside=_OUTSIDE_PARSE, stubs=[STUB_GROW], assumptions=_PARSE_ASSUME,
	harnesses=D1 + pick(SH, ["c12_r", "c12_e", "c12_rr", "c12_hl"]) + pick(L4, names("l4_string_n", (2, 3)), ["l4_string_n4"])
	+ pick(L3, names("l3_number_n", (1, 3, 5, 6)), ["l3_number_n8"]) + pick(L2, ["l2_bool_n4", "l2_bool_n5", "l2_null_n4"])
	+ pick(S1, ["s1_object_start_shaped", "s1_object_continue_shaped"]),
)

PROPS["C05"] = dict(
	design_ref="DESIGN.md §4 C05",
	level_text="Bounded model checking of the code-map effect of every unit: a scalar records exactly one entry (start offset, end offset in BYTES, volume 1); array/object start reserve the container entry (and for objects the entry and key entries, in pre-order, the key entry closed with the key's span); continue-fragments close the container with volume = number of entries recorded since it was opened; all for an arbitrary base offset and multi-byte characters.",
	level_note="Per fragment kind at unit level (Kani); the closing of entry fragments after their value and the pre-order composition over a whole document are decided by the driver check (MIR symbolic execution: the complete code map is compared with the reference's) for documents up to the length bound.",
	functions=_PARSE_FUNCS, bounds="as C01 units; base offset <= 2^20; 1..=3 pre-existing code-map entries",
	outside=_OUTSIDE_PARSE, stubs=[STUB_GROW], assumptions=_PARSE_ASSUME,
	harnesses=pick(S1, [h["name"].split("::")[-1] for h in S1]) + pick(L2, ["l2_bool_n4", "l2_bool_n5", "l2_null_n4"])
	+ pick(L3, names("l3_number_n", (1, 3, 5)), ["l3_number_n7"]) + pick(L4, names("l4_string_n", (2, 3)), ["l4_string_n4"]) + pick(SH, ["c12_rr", "c12_h", "c12_hr"]) + P0
	+ pick(EP, ["ep_null_parse_str", "ep_null_parse_infallible"], "rest"),
)

PROPS["C07"] = dict(
	design_ref="DESIGN.md §4 C07",
	level_text="Bounded model checking of the error reported by every unit: on rejection the error is Unexpected(p, c) with p the byte length of the longest prefix the reference automaton can still extend and c the character there (None exactly at end of input); surrogate errors carry the offending code units and a span inside the offending escapes; ill-formed UTF-8 in byte input is reported at the first ill-formed sequence unless a syntax error lies strictly before it.",
	level_note="Unit level (Kani) plus the driver check (MIR symbolic execution): error offset and character of every rejected document up to the length bound, including the root trailing-garbage error. Surrogate-error spans are required to lie within the offending escape(s) up to the element that revealed the problem, not at an exact offset.",
	functions=_PARSE_FUNCS, bounds="as C01 units",
	outside=_OUTSIDE_PARSE, stubs=[STUB_GROW], assumptions=_PARSE_ASSUME,
	harnesses=L2 + pick(L3, names("l3_number_n", range(0, 7)), "rest") + pick(L4, names("l4_string_n", range(0, 5)), "rest") + pick(L4A, [], "rest")
	+ S1 + pick(L5, names("l5_null_slice_n", (1, 2, 3, 4)), "rest") + pick(L5W, ["l5_null_slice_with_n3"], "rest") + pick(EP, ["ep_null_parse_str", "ep_null_parse_utf8_with", "ep_null_parse_infallible_with"], "rest") + P0 + pick(SH, ["c12_h", "c12_l", "c12_ho", "c12_hr", "c12_he", "c12_lh"], ["c12_hh", "c12_hhl", "c12_h_open", "c12_hl_open"]),
)

PROPS["C12"] = dict(
	design_ref="DESIGN.md §4 C12",
	level_text="Bounded model checking of the string unit under all four option combinations at once (both flags symbolic): for every sequence of <= 2 (quick) / 3 (thorough) elements over {high-surrogate escape, low-surrogate escape, other escape, raw character} with all digit values symbolic, strict success implies the same value and code map under every option value, each unpaired high surrogate becomes exactly one U+FFFD iff the truncated-pair option is on, each lone low surrogate exactly one U+FFFD iff the invalid-code-point option is on, otherwise the strict error; every other unit is run with symbolic options and must not depend on them.",
	level_note="String unit in value and key position (the key parser is the same function; the object fragment harnesses run it in key position with symbolic options). Documents as wholes are outside the claim.",
	functions=_PARSE_FUNCS, bounds="<= 2 elements (quick), selected 3-element sequences (thorough); all other units as in C01",
	outside=_OUTSIDE_PARSE, stubs=[STUB_GROW], assumptions=_PARSE_ASSUME,
	harnesses=pick(SH, ["c12_" + x for x in _S1 + _S2], "rest") + pick(D1, ["d1_escape_any"], "rest") + pick(L2, ["l2_bool_n4", "l2_null_n4"]) + EPS
	+ pick(L3, ["l3_number_n3"]) + pick(S1, ["s1_array_start_n2", "s1_array_continue_n2", "s1_object_start_shaped", "s1_object_continue_shaped"]) + pick(L4, ["l4_string_n3"], ["l4_string_n4"]),
)

# ---------------------------------------------------------------------------
_OV = "object::verif::"
_OBJ = "object with key-equality pattern '%s' built directly from an entry vector (key identities: symbolic permutation of {a,b,c,''}; values symbolic over 4 scalars) plus the harness-built canonical index"
_I3OPS = ["push", "push_front", "insert", "remove_at", "remove", "remove_unique"]
I3 = [H(_OV + "i3_%s_%s" % (o_, p_), "in", "quick", 1500,
        (_OBJ % p_) + "; operation %s with symbolic key, value, position and (for the removal iterators) consumed / partially consumed / dropped" % o_,
        "unwind 6", gb=5.0) for p_ in ("empty", "a", "aa", "ab") for o_ in _I3OPS]
PROPS["C06"]["harnesses"] = I1 + I2 + I3
PROPS["C06"]["functions"] += ["Object::{push,push_entry,push_front,push_entry_front,insert,remove_at,remove,remove_unique,len,is_empty,contains_key,index_of,redundant_index_of,indexes_of,get,get_entries_with_index,get_unique}",
                              "RemovedByInsertion/RemovedEntries iterators and their Drop"]

C09H = [H(_OV + "c09_member_order_is_utf16_1char", "in", "quick", 600, "two one-character keys, each any Unicode scalar value (all 1,112,064^2 pairs); values any boolean", "unwind 6"),
        H(_OV + "c09_member_order_is_utf16_2chars", "in", "quick", 1200, "two keys of 0..=2 characters, each character any Unicode scalar value", "unwind 8")]
C10H = [H(_OV + "c10_comparator_is_a_total_order", "in", "quick", 1800, "three entries, keys of 0..=1 arbitrary characters, values any boolean", "unwind 8", gb=4.0)] + \
       [H(_OV + "c10_canonicalize_leaves_%s_alone" % k_, "in", "quick", 900, d_, "unwind 6") for k_, d_ in (("null", "null"), ("booleans", "any boolean"), ("strings", "any string of 0..=1 arbitrary characters"))]
C08S = [h for h in PROPS["C13"]["harnesses"] if "c08_" in h["name"]]
I3S = [H(_OV + "i3_sort_" + p_, "in", "quick", 1800, (_OBJ % p_) + " with null values; Object::sort", "unwind 6", gb=5.0) for p_ in ("ab", "aa")]
PROPS["C06"]["harnesses"] = PROPS["C06"]["harnesses"] + I3S

PROPS["C09"] = dict(
	design_ref="DESIGN.md §4 C09",
	level_text="Bounded model checking of the comparator Object::canonicalize_with hands to sort_by (object::canonical_cmp) against UTF-16 code-unit order for ALL pairs of one-character keys and all pairs of keys of <= 2 characters, plus the string escaping every printed key and string goes through (all one-character strings). Number canonicalization is NOT decided.",
	level_note="Numbers are outside the claim: Number::canonical_with is lexical's float parser followed by ryu-js (floating point, 128-bit multiplications) and is beyond CBMC at any useful digit count; the known 1-ulp deviations for > 19 digits stay invisible to this check. That canonicalize_with really sorts with this comparator is trusted to std's sort_by (C10 reduction); the recursion over children is read-only.",
	functions=["object::canonical_cmp", "print::string_literal", "print::printed_string_size"],
	bounds="keys <= 2 characters; strings <= 2 characters",
	outside=["number canonicalization (floating point)", "std's sort_by (trusted)", "keys longer than 2 characters (comparator) / 1 character (wrapper)", "values nested deeper than three levels; the order among members with equal keys whose values are containers"],
	stubs=[STUB_GROW], assumptions=["keys are compared through the real canonical_cmp on stack-allocated entries"],
	harnesses=C09H + [dict(h, tier="quick") for h in C08S],
)

PROPS["C10"] = dict(
	design_ref="DESIGN.md §4 C10",
	level_text="Reduction decided by the solver: (1) the canonicalization comparator is a total order consistent with entry equality (so the sorted arrangement of any multiset of entries is unique up to swapping equal entries: idempotence and member-order blindness for every object size), (2) clearing and rebuilding the key index yields the canonical index from any previous state (object stays queryable), (3) non-number scalars are left untouched.",
	level_note="std's slice::sort_by is trusted to return a permutation sorted under the comparator it is given; numbers (double value, respelling) are outside the claim (floating point); respellings of whole documents go through whole-document parsing (outside); the escape-insensitivity of strings is C02's decoding result.",
	functions=["object::canonical_cmp", "IndexMap::{clear,insert}", "Value::canonicalize_with (scalars)"],
	bounds="keys <= 2 characters; index rebuild over <= 3 entries",
	outside=["numbers", "std's sort_by (trusted)", "documents as wholes", "objects of more than 4 (quick) / 5 (thorough) entries in the wrapper check"],
	stubs=[STUB_GROW], assumptions=[],
	harnesses=C10H + pick(C09H, ["c09_member_order_is_utf16_1char"]),
)

C14O = [H(_OV + "c14_index_independence_" + p_, "in", "quick", 900, (_OBJ % p_) + " vs. the same entries with an EMPTY index, and vs. the same keys with other symbolic values", "unwind 10", gb=6.0) for p_ in ("empty", "a", "aa", "ab")] + \
       [H(_OV + "c14_clone_" + p_, "in", "quick", 900, _OBJ % p_, "unwind 6", gb=6.0) for p_ in ("a", "aa", "ab")] + \
       [H(_OV + "c14_prefix_" + p_, "in", "quick", 1800, (_OBJ % p_) + " vs. its strict prefix (one entry fewer)", "unwind 10", gb=5.0) for p_ in ("a",)]
_VK = "variant combination concrete per instance (n null, b boolean, # number from 6 spellings, $ string), payloads symbolic"
C14E = [H("order::c14_laws_scalars_" + k_, "ext", "quick", 1200, "three scalars, %s; strings of 0..=2 arbitrary characters" % _VK, "unwind 10", gb=3.0) for k_ in ("bbb", "nums", "strs", "nbn", "bns", "snb", "nns")] + \
       [H("order::c14_laws_value_slices_" + k_, "ext", "quick", 1500, "three [Value] slices (lengths concrete per instance: 2/2/2 or 1/2/0), %s; strings of <= 1 arbitrary character" % _VK, "unwind 10", gb=4.0) for k_ in ("bools", "prefix", "mixed")] + \
       [H("order::c14_laws_entries_" + k_, "ext", "quick", 1200, "three entries: keys of 0..=2 arbitrary characters, values %s" % _VK, "unwind 10", gb=3.0) for k_ in ("bbb", "nums", "mixed")] + \
       [H("order::c14_laws_entry_slices_" + k_, "ext", "quick", 1500, "three [Entry] slices (lengths concrete per instance: 2/2/2 or 1/2/2), keys of <= 1 arbitrary character, values %s" % _VK, "unwind 10", gb=4.0) for k_ in ("bools", "prefix")]

PROPS["C14"] = dict(
	design_ref="DESIGN.md §4 C14",
	level_text="Bounded model checking of the Eq/Ord/Hash laws (reflexive, antisymmetric, transitive, Equal exactly when ==, partial_cmp = Some(cmp), equal values produce identical hasher input) on symbolic triples of stack values — scalars, [Value] slices (the code Vec<Value> derefs to), entries and [Entry] slices (the code Object's ==/cmp/hash deref to) — and of index independence: an object with the canonical index and one with an EMPTY index over the same entries are ==, compare Equal and hash identically; clones equal their originals and keep a working index.",
	level_note="History independence follows from C06 (the entry list after each operation is the model's) plus index independence. Larger/nested values are outside the bound.",
	functions=["derive(PartialEq, Eq, PartialOrd, Ord, Hash) for Value and Entry", "impl PartialEq/Eq/PartialOrd/Ord/Hash for Object", "Object::clone"],
	bounds="strings/keys <= 2 characters; slices <= 2 elements; objects <= 2 entries",
	outside=["nested arrays/objects beyond one slice level", "objects with more than 2 entries"],
	stubs=[STUB_GROW], assumptions=["hash coherence is checked with a recording Hasher (length-prefixed writes compared word-wise)"],
	harnesses=C14E + C14O,
)

C11H = [H(_OV + "c11_array_iter_mapped_k%d" % k, "in", "quick", 900, "%d items; code map of 16 entries with arbitrary volumes except the children's roots, whose volumes are symbolic 1..=3; container offset 0..=2" % k, "k=%d, unwind 18" % k) for k in range(0, 4)] + \
       [H(_OV + "c11_object_mapped_" + p_, "in", "quick", 700, "object with key-equality pattern '%s' (key identities symbolic); value volumes symbolic 1..=3; container offset 0..=1; query key symbolic (present / duplicated / absent)" % p_, "unwind 18", gb=6.0) for p_ in ("empty", "a", "aa", "ab", "aaa", "aba", "abb", "abc")]

C11F = [H("frag::c11_get_fragment_leaf_" + k_, "ext", "quick", 600, "a leaf value (%s), index symbolic < 2^30" % d_, "unwind 4") for k_, d_ in (("b", "any boolean"), ("a", "empty array"))] + \
       [H("frag::c11_get_array_fragment_" + k_, "ext", "quick", 900, "items '%s' on the stack (b boolean with symbolic payload, n null, a empty array, o empty object); index symbolic < 2^30" % k_, "unwind 6") for k_ in ("empty", "a", "bab", "nab", "aaba")] + \
       [H("frag::c11_entry_get_fragment_" + k_, "ext", "quick", 600, "entry with key 'k' and a leaf value (%s); index symbolic" % d_, "unwind 4") for k_, d_ in (("b", "any boolean"), ("a", "empty array"))]

C11F = C11F + [H(_OV + "c11_vec_try_from_json_reports_the_offending_fragment", "in", "quick", 1800, "Vec<bool>::try_from_json_at on a heap array of 3 scalars; code-map volumes of the items symbolic 1..=3; wrong-kind item at a symbolic position or nowhere; container offset 0..=2", "unwind 18", gb=4.0)]

PROPS["C11"] = dict(
	design_ref="DESIGN.md §4 C11",
	level_text="Bounded model checking of the mapped iterators and key-based mapped lookups over code maps built per the C05 specification with children of ARBITRARY size (symbolic volumes: the iterators read only sibling volumes, never descend), for arrays of <= 3 items and one-key objects of <= 2 entries with a symbolic query key; and of fragment lookup by index (get_fragment / get_array_fragment / Entry::get_fragment) on leaves and stack arrays of leaves with a symbolic index.",
	level_note="Assumes the C05 layout of the code map (checked separately per fragment kind); parsed documents cannot be produced inside a harness. Fragment lookup (get_fragment / traverse / volume) and the TryFromJson conversions on heap shapes are covered only as far as the thorough tier completes; BTreeMap conversion is outside.",
	functions=["Value::get_fragment", "get_array_fragment", "Entry::get_fragment", "<[Value] as JsonArray>::iter_mapped", "array::IterMapped::next", "Object::{iter_mapped,get_mapped,get_mapped_entries_with_index,get_unique_mapped,get_unique_mapped_entry}", "object::IterMapped::next", "MappedEntries*/MappedValues*::next"],
	bounds="arrays: <= 3 children, child volumes 1..=3, container offset <= 2, code map of 16 entries; objects: patterns '', 'a', 'aa' (one key, up to two entries); fragment lookup: <= 4 leaf items on the stack",
	outside=["mapped lookups on objects with two distinct keys or three entries (CBMC out of memory)", "the TryFromJson conversions other than Vec<bool> / Vec<Vec<bool>> / BTreeMap<String, bool> (Option, Box, numbers, strings, keys whose FromStr can fail): not encoded", "Value::count with a caller-supplied predicate (volume is its instance that is checked)", "fragment lookup / traversal on values nested deeper than 3 or wider than 3"],
	stubs=[STUB_GROW], assumptions=["code map laid out as specified by C05: array child i at base+1+sum of earlier volumes; object entry i at base+1+sum of (2+value volume), key at +1, value at +2"],
	harnesses=C11H + C11F,
)

# ---------------------------------------------------------------------------
C08H = C08S + \
       [H("print::c08_compact_%s_k%d" % (t, k), "ext", "quick", 900, "Options::compact() (concrete preset); %d children each one symbolic ASCII byte; keys any Unicode scalar value; depth 0..=2" % k, "k=%d, unwind 6" % k) for t in ("array", "object") for k in (0, 2)] + \
       [H("print::c08_scalar_" + t, "ext", "quick", 1200, "scalar %s; option record fully symbolic (fields 0..=3, all limits)" % d, "unwind %d" % u, gb=3.0)
        for t, d, u in (("null", "null", 7), ("bool", "any boolean", 7), ("number", "number from 8 spellings of <= 8 characters", 10), ("string", "one-character string (any Unicode scalar value)", 8))]

PROPS["C08"] = dict(
	design_ref="DESIGN.md §4 C08",
	level_text="Bounded model checking of the function every string and key is printed with (print::string_literal) against the RFC 8785 escaping for ALL one-character strings and all two-character strings over an escape-relevant alphabet, of one container level under the compact preset (output is exactly brackets, children joined by ',' and keys followed by ':'), of the preset's inability to expand, and of the scalar tokens through Display / compact_print / print_with.",
	level_note="Containers are decided one level at a time with arbitrary children (see C13); the recursion wrappers over heap values are read-only. Strings longer than 2 characters are outside the bound (the escaping is per character: the loop body is decided for every character).",
	functions=["print::string_literal", "print::digit", "print::print_array", "print::print_object", "print::Options::compact", "impl Print for Value (scalars)", "impl Display for Value (scalars)", "impl Display for NumberBuf"],
	bounds="strings <= 2 characters; one container level, k <= 2 children",
	outside=["strings longer than 2 characters", "recursion wrappers over heap Value trees", "String::from(Value) (heap String)"],
	stubs=[STUB_GROW], assumptions=[],
	harnesses=[dict(h, tier="quick") for h in C08H],
)

C04R = [H(_PV + "c04_reparse_" + n, "in", "quick", 1200, "string of %s, each character any scalar value of its escaping class; both option flags" % d, "unwind %d" % u, gb=3.0)
        for n, d, u in (("raw", "one raw-printed character", 3), ("short", "one two-character-escaped character", 3), ("u00xx", "one \\\\u00xx-escaped control character", 3),
                        ("raw_short", "two characters (raw, short escape)", 4), ("short_u00xx", "two characters (short escape, \\\\u00xx)", 4),
                        ("u00xx_raw", "two characters (\\\\u00xx, raw)", 4), ("raw_raw", "two raw-printed characters", 4))]

PROPS["C04"] = dict(
	design_ref="DESIGN.md §4 C04",
	level_text="Bounded model checking of the round trip for scalar values, split into two queries that compose by substitution of equals (printer and parser are never in the same formula): (i) string_literal(s) emits exactly esc(s), the reference RFC 8785 escaping (all one-character strings); (ii) the string parser applied to esc(s) returns s (all one- and two-character strings, by escaping class); numbers and literals print as their spelling and the number/literal parsers return the spelling; print options never reach scalars (fully symbolic option record).",
	level_note="Containers: C13 decides that the printed bytes equal the reference layout, which is the compact token sequence plus whitespace outside strings; re-parsing a container is whole-document parsing and is outside the claim (composition argument, not a solver result).",
	functions=["print::string_literal", "<SmallString as Parse>::parse_in", "<NumberBuf as Parse>::parse_in", "impl Print for Value (scalars)"],
	bounds="strings <= 2 characters; numbers <= 6 characters / 8 fixed spellings",
	outside=["re-parsing of containers (whole-document parsing)", "strings longer than 2 characters"],
	stubs=[STUB_GROW], assumptions=["the round trip is the composition of two separately decided facts through the reference escaping esc()"],
	harnesses=C04R + [dict(h, tier="quick") for h in C08S] + pick(C08H, ["c08_scalar_null", "c08_scalar_bool", "c08_scalar_number", "c08_scalar_string"]) + pick(L3, names("l3_number_n", (3, 5)), ["l3_number_n8"]) + pick(L2, ["l2_bool_n5", "l2_null_n4"]),
)
# C04: the size pre-computation records exactly the slots the emission consumes (a mismatch makes printing panic or mis-lay out)
PROPS["C04"]["harnesses"] = PROPS["C04"]["harnesses"] + [dict(h, tier="quick") for h in PROPS["C13"]["harnesses"] if "c13_p1_" in h["name"] or h["name"].split("::")[-1] in ("c13_p2_array_k1", "c13_p2_object_k1")]
PROPS["C04"]["functions"] += ["print::pre_compute_array_size / pre_compute_object_size (slot accounting)", "print::print_array / print_object (slot consumption)"]
# C02: key lookups on a parsed object return the entries carrying the key, in source order (index positions stay sorted)
PROPS["C02"]["harnesses"] = PROPS["C02"]["harnesses"] + pick(I1, ["i1_indexes_2", "i1_indexes_3", "i1_indexes_4"])
PROPS["C13"]["harnesses"] = PROPS["C13"]["harnesses"] + pick(C08H, ["c08_scalar_null", "c08_scalar_bool", "c08_scalar_number", "c08_scalar_string"])

# ---------------------------------------------------------------------------
# Assertions labelled for another property that ALSO decide this one (shared
# harness families): a failed check with one of these labels is a violation of
# the property too.
PROPS["C04"]["also"] = ["C08:string-literal-escaping", "C08:display-is-the-compact-token", "C08:compact-print-is-the-compact-token",
                        "C13:options-never-reach-scalars", "C02:number-spelling-verbatim", "C02:literal-value",
                        "C01:number-accepted-when-rfc8259-lexeme-plus-follow", "C01:literal-accepted-when-spelled-exactly"]
PROPS["C09"]["also"] = ["C08:string-literal-escaping"]
PROPS["C10"]["also"] = ["C09:members-sorted-by-utf16-code-units", "C06:index-canonical-after-rebuild", "C06:clear-empties-the-index",
                        "C06:stored-hashes-match-representatives", "C06:index-canonical-after-append", "C06:insert-reports-whether-the-key-is-new"]
PROPS["C13"]["also"] = ["C08:compact-preset-never-expands"]
# where a value ends decides where the enclosing object entry (closed by the driver at the current position) ends
PROPS["C05"]["also"] = ["C01:closing-brace-consumed", "C01:closing-bracket-consumed", "C01:empty-array-consumes-through-bracket",
                        "C01:empty-object-consumes-through-brace", "C01:number-consumes-exactly-its-lexeme",
                        "C01:string-consumes-exactly-its-characters", "C01:literal-consumes-exactly-its-characters"]

# ---------------------------------------------------------------------------
# the driver loop (src/parse/value.rs) by symbolic execution of its MIR (drv/): whole documents
for _p in ("C01", "C02", "C05", "C07"):
	PROPS[_p]["harnesses"] = PROPS[_p]["harnesses"] + DRVQ + DRVT
	PROPS[_p]["functions"] = PROPS[_p]["functions"] + _DRV_FUNCS
	PROPS[_p]["assumptions"] = PROPS[_p]["assumptions"] + _DRV_ASSUME

# ---------------------------------------------------------------------------
# the Object methods (src/object/mod.rs) by symbolic execution of their MIR with symbolic keys (drv/objcheck.py)
def OBJ(tier, depth, cap):
	h = H("obj::histories_depth%d" % depth, "mir", tier, cap,
	      "every history of <= %d operations from the empty object over push / push_front / remove_at(i) / insert / insert_front / remove(key) / remove_unique / sort / canonicalize, removal iterators pulled 0 or 2 times before being dropped; "
	      "KEYS SYMBOLIC (each key one character, a z3 integer over all Unicode scalar values >= 'A': equality, str order and UTF-16 order decided lazily by the solver)" % depth,
	      "histories of <= %d operations (objects of <= %d entries)" % (depth, depth), gb=2.0)
	h["tool"] = "objcheck"
	h["depth"] = depth
	return h


PROPS["C06"]["harnesses"] = PROPS["C06"]["harnesses"] + [OBJ("quick", 4, 1500), OBJ("thorough", 5, 7200)]
PROPS["C14"]["harnesses"] = PROPS["C14"]["harnesses"] + [OBJ("quick", 4, 1500)]  # the Eq/Ord/Hash/Clone checks stop at 4 operations: depth 5 adds nothing for C14
PROPS["C14"]["functions"] = PROPS["C14"]["functions"] + ["impl Clone / PartialEq / Ord / PartialOrd / Hash for Object (from MIR), on every object reachable by <= 4 operations, against a twin rebuilt from the same entries by pushes, its clone, its strict prefix, and (objects reached by <= 3 operations) laws on two further real objects: the entries reversed and the entries without the first"]
PROPS["C14"]["assumptions"] = PROPS["C14"]["assumptions"] + ["Object-level check (MIR): Vec<Entry>'s ==, cmp and hash are modelled on the entry lists (std trusted); the object's index is compared structurally"]
PROPS["C14"]["outside"] = ["nested arrays/objects beyond one slice level (Kani laws)", "objects of more than 4 entries", "Kani on non-empty heap objects (does not finish; replaced by the MIR-based object check)"]
def CANONN(tier, level, cap):
	what = "objects of <= 2 members with values from {t, {}, {k:t}, {k:t,k:f}, [{k:t,k:f}]} and arrays of <= 2 items from {t, {k:t,k:f}, [{k:t,k:f}]}" if level == 1 else \
	       "the level-1 values plus objects of <= 2 members with a value among {k:{k:t,k:f}} (three levels) and {k:t,k:f,k:t}, and objects of 3 members with values from {t, {k:t}, {k:t,k:f}}"
	h = H("obj::canonicalize_nested_l%d" % level, "mir", tier, cap,
	      "Value::canonicalize_with and Object::canonicalize_with from MIR, recursively, on every value among %s; EVERY key at every depth is one symbolic character (equalities and UTF-16 order decided by z3). After the call: the value is unordered-equal to the original "
	      "(recursive definition), every object at every depth has its members in non-decreasing UTF-16 key order (booleans break ties) and a canonical index, and a second call changes nothing" % what,
	      "nesting <= %d, %s" % (2 if level == 1 else 3, "objects of <= 2 members" if level == 1 else "objects of <= 3 members"), gb=2.0)
	h["tool"] = "objcheck"
	h["canon_nested"] = level
	return h


for _p in ("C09", "C10"):
	PROPS[_p]["harnesses"] = PROPS[_p]["harnesses"] + [OBJ("quick", 4, 1500), OBJ("thorough", 5, 7200), CANONN("quick", 1, 600), CANONN("thorough", 2, 3600)]
	PROPS[_p]["functions"] = PROPS[_p]["functions"] + ["Object::canonicalize_with (from MIR; one-character keys over all of Unicode, symbolic: str order and UTF-16 order may disagree)", "Value::canonicalize_with (from MIR: the recursion into arrays and objects, nested check)"]
	PROPS[_p]["assumptions"] = PROPS[_p]["assumptions"] + ["Object::canonicalize_with is interpreted from its MIR over the Vec/IndexMap models; sort_by with canonical_cmp is represented by the UTF-16 code-unit order relation (that canonical_cmp implements that order is decided by the Kani harnesses c09_member_order_*); values are opaque tags (numbers are outside)"]
PROPS["C06"]["functions"] += ["Object::{push,push_entry,push_front,push_entry_front,remove_at,insert,insert_front,remove,remove_unique,sort,index_of,redundant_index_of} and the three removal iterators' next/Drop (from MIR)"]
PROPS["C06"]["assumptions"] = PROPS["C06"]["assumptions"] + [
	"Object-level check: Vec<Entry> and IndexMap are contract models (the IndexMap model is the bucket semantics of src/object/index_map.rs that the Kani harnesses I1/I2 establish for the real code, defined for every state including stale ones); "
	"std's sort_by and the derived ordering of Entry are trusted (entries are sorted by (key, value) in the model); a sample of the explored histories and every counter-example are replayed on the REAL Object (native helper)"]

# ---------------------------------------------------------------------------
# C06: the Kani instances that do not finish (measured: out of memory at 12 GB or > 15-40 min each — IndexMap::insert onto an
# existing key, clear+rebuild, Object operations on non-empty heap objects, Object::sort) are NOT registered; their source stays
# in incrate/ for the record. Those operations are decided at Object level by the MIR-based object check instead.
def _finishes(n):
	s = n.split("::")[-1]
	if s.startswith("i2_insert_") and not s.endswith("_a"):
		return False
	if s.startswith("i2_clear_rebuild") or s.startswith("i3_sort"):
		return False
	if s.startswith("i3_") and not s.endswith("_empty"):
		return False
	# mapped lookups: objects of two distinct keys or three entries run out of memory (12 GB) within 3 min; the
	# conversion harness aborts in CBMC (exit 6)
	if s.startswith("c11_object_mapped_") and s.split("_")[-1] not in ("empty", "a", "aa"):
		return False
	if s.startswith("c11_vec_try_from_json"):
		return False
	# Object-level Kani harnesses on NON-EMPTY heap objects: 30 min cap reached by every instance (measured)
	if (s.startswith("c14_index_independence_") or s.startswith("c14_clone_")) and not s.endswith("_empty"):
		return False
	return True


for _p in PROPS:
	PROPS[_p]["harnesses"] = [h for h in PROPS[_p]["harnesses"] if _finishes(h["name"])]
PROPS["C06"]["outside"] = ["the REAL IndexMap::insert onto an existing key / clear+rebuild at IndexMap level under Kani (CBMC does not finish; Indexes::insert itself is I1, and the Object-level behaviour is decided by the object check over the bucket-semantics model)",
                           "growth/rehash behaviour of the real hashbrown table (trusted)", "histories longer than 4 (quick) / 5 (thorough) operations", "get_or_insert_with, extend, from_vec, iter_mut-based mutation, clone (clone: C14)"]
PROPS["C06"]["bounds"] = "Indexes: <= 4 positions, all < 8; IndexMap (Kani): <= 3 entries, keys in {a,b,c,''}; Object (Kani): operations on the empty object; Object (MIR + z3): every history of <= 4 / 5 operations with symbolic keys"
PROPS["C06"]["level_text"] = ("Two engines. Kani/CBMC, one-step inductive: every index primitive (Indexes::insert/remove/shift_up/shift_down; IndexMap::remove/shift and fresh-key insert) is run from an ARBITRARY state satisfying the representation invariant and must re-establish it. "
                              "MIR symbolic execution + z3: the Object methods and the removal iterators (next, Drop) are interpreted from their MIR over Vec/IndexMap models for EVERY history of <= 4 (quick) / 5 (thorough) operations from the empty object with SYMBOLIC keys; "
                              "after every operation the entries equal the list model's, the index is canonical for them and the result is the model's; counter-examples and a sample of passing histories are replayed on the real Object.")

# ---------------------------------------------------------------------------
# C15: Object::unordered_eq, by symbolic execution of its MIR (drv/objcheck.py --unordered)
def UNORD(tier, n, cap):
	h = H("obj::unordered_eq_n%d" % n, "mir", tier, cap,
	      "every pair of objects of <= %d entries each, same size: keys SYMBOLIC (one character each, a z3 integer over all Unicode scalar values >= 'A'; which keys coincide, within and across the two objects, is decided lazily by the solver), "
	      "values over {0, 1}; also every pair of different sizes <= %d; both argument orders" % (n, n), "objects of <= %d entries, scalar values" % n, gb=2.0)
	h["tool"] = "objcheck"
	h["unordered"] = n
	return h


def UNORDN(tier, level, cap):
	what = "t, f, [t], {k:t}, {k:t,k:f}" if level == 1 else "t, f, [t], {k:t}, {k:t,k:f}, [], {}, {k:t,k:t}"
	h = H("obj::unordered_eq_nested_l%d" % level, "mir", tier, cap,
	      "every pair of arrays and every pair of objects of the same length <= 2 whose items / entry values are drawn from {%s} (plus pairs of different kind or length): EVERY key at every depth is its own symbolic key (which keys coincide is decided lazily by z3, also inside the index while the objects are built by interpreted pushes), scalars are booleans; "
	      "Value::unordered_eq, Vec<Value>::unordered_eq and Object::unordered_eq run from MIR recursively; the result must equal the recursive definition evaluated under the same key decisions; both argument orders" % what,
	      "two levels of nesting, outer length <= 2, inner values from a set of %d" % (5 if level == 1 else 8), gb=3.0)
	h["tool"] = "objcheck"
	h["unordered_nested"] = level
	return h


PROPS["C15"] = dict(
	design_ref="DESIGN.md §0 (second engine) / §4 C15",
	level_text="Symbolic execution of the MIR of Object::unordered_eq (and of the closures it passes to all/any) with z3: for every pair of objects of <= 3 (quick) / 4 (thorough) entries with SYMBOLIC keys — every pattern of coinciding keys inside and across the two objects — and values over {0, 1}, the result equals the permutation criterion (equality of the entry multisets), in both argument orders; and of Value / Vec<Value> / Object::unordered_eq recursively on pairs of two-level nested values with a symbolic key at every position, against the recursive definition; counter-examples are replayed on the real values.",
	level_note="Flat check: values are scalars; nested check: two levels (Value / Vec / Object::unordered_eq recursively from MIR); the index is the bucket-semantics model (C06). This is the check that exposed the multiplicity defect fixed in /repo (known-findings.txt).",
	functions=["<Object as UnorderedPartialEq>::unordered_eq and its closures (from MIR)", "Object::push / push_entry (from MIR, to build the objects)"],
	bounds="objects of <= 3 (quick) / 4 (thorough) entries; values scalar",
	outside=["nested values (recursion through Value::unordered_eq / Vec::unordered_eq)", "objects of more than 4 entries", "the Unordered wrapper's Hash"],
	stubs=[], assumptions=["get_entries / get_entries_with_index are represented by the index's bucket semantics (C06); Value::unordered_eq on scalars is equality"],
	harnesses=[UNORD("quick", 3, 900), UNORD("thorough", 4, 3600), UNORDN("quick", 1, 1200), UNORDN("thorough", 2, 5400)],
)

# ---------------------------------------------------------------------------
PROPS["C15"]["functions"] = PROPS["C15"].get("functions", []) + ["<Value as UnorderedPartialEq>::unordered_eq, <Vec<T> as UnorderedPartialEq>::unordered_eq and its closure (from MIR, nested mode)"]
PROPS["C15"]["outside"] = [x for x in PROPS["C15"]["outside"] if not x.startswith("nested values")] + ["values nested deeper than two levels; number and string scalars (booleans stand for scalars in the nested check)"]

# C11: key-based mapped lookups by symbolic execution of their MIR (drv/objcheck.py --mapped)
def MAPPED(tier, n, cap):
	h = H("obj::mapped_lookups_n%d" % n, "mir", tier, cap,
	      "every object of <= %d entries built by interpreted pushes, keys SYMBOLIC (which keys coincide is decided lazily by z3), a symbolic query key, a symbolic container offset, and a code map whose volumes are an UNINTERPRETED FUNCTION vol(index) "
	      "(children of arbitrary size); equality of the yielded offsets with the C05 layout is proved by z3 over vol and the offset" % n, "objects of <= %d entries" % n, gb=2.0)
	h["tool"] = "objcheck"
	h["mapped"] = n
	return h


def CONVERT(tier, n, cap):
	h = H("obj::vec_conversions_n%d" % n, "mir", tier, cap,
	      "Vec<bool>::try_from_json_at on null, true and every array of <= %d items from {true, false, null, [null]}; Vec<Vec<bool>>::try_from_json_at on every array of <= %d items, each null, true or an array of <= 2 items from {true, null, [null]}; BTreeMap<String, bool-like>::try_from_json_at on null, true and every object of as many entries with SYMBOLIC keys (which keys coincide, hence which entries replace which, is decided by z3) and values from {true, false, null, [null]}; "
	      "the offset of the converted value is SYMBOLIC and the code map is read through an uninterpreted volume function constrained to the C05 layout of the value at that offset; the error offset / kinds and the Ok payload are compared with the recursive definition, offsets by z3" % (n, min(n, 3)),
	      "arrays of <= %d items, nesting <= 2" % n, gb=2.0)
	h["tool"] = "objcheck"
	h["convert"] = n
	return h


def FRAGS(tier, level, cap):
	what = "nesting depth <= 2, containers of <= 2 items/entries (115 values)" if level == 1 else "nesting depth <= 2 with <= 3 items/entries per container (1,641 values) and depth-3 chains (28 values)"
	h = H("obj::fragment_lookup_l%d" % level, "mir", tier, cap,
	      "Value::get_fragment(index) with a SYMBOLIC index (any non-negative integer) on every nested array/object value of %s: every branch on the index forks under the path condition (z3); per path, Ok(fragment) must be the c-th fragment of the pre-order with the path condition implying index == c, "
	      "Err(e) needs the path condition to imply index >= total and e == index - total, the paths must cover every index, no index subtraction may wrap; traverse() and volume() are interpreted on the same values (no symbolic input) and compared with the same pre-order" % what,
	      "index unbounded; values: %s" % what, gb=2.0)
	h["tool"] = "objcheck"
	h["fragments"] = level
	return h


PROPS["C11"]["harnesses"] = PROPS["C11"]["harnesses"] + [MAPPED("quick", 3, 900), MAPPED("thorough", 6, 3600), CONVERT("quick", 2, 600), CONVERT("thorough", 4, 1800), FRAGS("quick", 1, 600), FRAGS("thorough", 2, 2400)]
PROPS["C11"]["functions"] = PROPS["C11"]["functions"] + ["Object::get_mapped_entries / get_mapped / their _with_index variants / the four get_unique_mapped* lookups / iter_mapped and the MappedEntries / MappedValues / MappedEntriesWithIndex / MappedValuesWithIndex / object::IterMapped iterators' next and their closures (from MIR)",
	"Value::get_fragment, get_array_fragment, Object::get_fragment, Entry::get_fragment, Value::traverse, Traverse::next, FragmentRef::sub_fragments, SubFragments::next_back and its closure, Value::volume and its closure, FragmentRef::is_value (from MIR)",
	"<BTreeMap<K, V> as TryFromJson>::try_from_json_at and its closure, Object::iter_mapped, object::IterMapped::next (from MIR; BTreeMap::new/insert, str::parse::<String>, Result::map_err, Try::branch, FromResidual are models of their contracts)", "<Vec<T> as TryFromJson>::try_from_json_at and its closure, <bool as TryFromJson>::try_from_json_at, <Vec<Value> as JsonArray>::iter_mapped, array::IterMapped::next and its closure, Value::kind, Mapped::new (from MIR)"]
PROPS["C11"]["assumptions"] = PROPS["C11"]["assumptions"] + ["fragment check (MIR): SmallVec new/push/pop/extend(rev), slice iterators, Option::map/or_else/take and Iterator::filter+count are models of their std contracts; fragments are identified by their location in the value; counter-examples and every value of the quick bound are replayed on the real value parsed from text", "conversion check (MIR): std's Iterator::map + collect::<Result<Vec<_>,_>>() is a model of its contract (items in order, first Err returned at once); T::try_from_json_at is dispatched by target type (Vec<bool>, Vec<Vec<bool>>) as monomorphisation does; counter-examples and every value of the quick bound are replayed on the real conversion of a document parsed by the real parser", "mapped-lookup check (MIR): the code map is an uninterpreted volume function; the key index is the bucket-semantics model (C06); counter-examples are replayed on a document parsed by the real parser (every value an array of one item)"]
PROPS["C11"]["outside"] = [x for x in PROPS["C11"]["outside"] if not x.startswith("mapped lookups on objects with two distinct keys")]


# ---------------------------------------------------------------------------
# level texts: what the second engine adds (appended here so that the texts above stay as designed)
PROPS["C09"]["level_text"] += " Second engine (MIR + z3): Object::canonicalize_with as an operation of the object check (histories of <= 4 / 5 operations, one-character symbolic keys: str order and UTF-16 order both available to the solver), and Value::canonicalize_with recursively on nested values (objects in objects, objects in arrays, arrays in arrays; every key symbolic): members in UTF-16 order at every depth."
PROPS["C10"]["level_text"] += " Second engine (MIR + z3): on nested values with a symbolic key at every position, canonicalization keeps the content (unordered-equal to the original), sorts and re-indexes every object at every depth, and a second call changes nothing."
PROPS["C11"]["level_text"] += " Second engine (MIR + z3): all eight key-based mapped lookups and Object::iter_mapped on objects of <= 3 / 6 entries with symbolic keys, a symbolic offset and uninterpreted volumes; Value::get_fragment with a symbolic UNBOUNDED index, traverse() and volume() on nested values (depth <= 2, width <= 2 / 3); Vec<bool>, Vec<Vec<bool>> and BTreeMap<String, bool>::try_from_json_at with a symbolic offset on every value of a stated shape set."
PROPS["C11"]["level_note"] = "Assumes the C05 layout of the code map (checked separately per fragment kind). The Kani instances cover one container level with symbolic child volumes; nested values, the unbounded index and the conversions are decided by the MIR engine on stated shape sets; the other TryFromJson conversions are outside."
PROPS["C14"]["level_text"] += " Second engine (MIR + z3): Object's Clone / == / cmp / partial_cmp / hash on every object reachable by <= 4 operations with symbolic keys, against a twin rebuilt by pushes, its clone, its strict prefix, its reverse and its tail (laws between real, different objects)."
