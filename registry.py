"""
Registry of Kani harnesses per property.

name   fully qualified harness name (`--harness <name> --exact`)
crate  "ext" = /verif/kani (public API only), "in" = in-crate module under
       cfg(json_syntax_verif) included from /verif/incrate/*.rs
tier   "quick" harnesses run in both tiers, "thorough" ones only in thorough
cap    per-harness CBMC time cap in seconds (a harness that hits it is
       reported inconclusive, never as a pass)
sym    what is symbolic (the set the solver quantifies over)
bound  the stated bound
"""


def H(name, crate, tier, cap, sym, bound):
	return dict(name=name, crate=crate, tier=tier, cap=cap, sym=sym, bound=bound)


COMMON_ASSUMPTIONS = [
	"trusted base: rustc (Kani's pinned nightly), Kani 0.68 MIR->goto translation and its models of alloc/intrinsics, CBMC 6.11, cadical",
	"core/alloc library code reached by the harness is encoded as compiled (Vec, char::from_u32, to_digit, encode_utf8, str comparison, fmt::write)",
	"hashbrown::raw::RawTable and ahash are replaced under cfg(json_syntax_verif) by the contract-checking model table in /verif/incrate/lib.rs (hashbrown/ahash trusted, not verified)",
	"harness-side reference functions (a few dozen lines each, /verif/kani/src and /verif/incrate) are correct; they are cross-checked natively by `cargo test` in /verif/kani",
	"a claim is for all values of the listed symbolic inputs within the stated bound; nothing outside the bound is claimed; unwinding assertions are on, so a too-small bound fails instead of truncating",
]

STUB_GROW = "kani::stub smallvec::SmallVec::try_grow -> panic (strings/keys/numbers stay within the 16-byte inline capacity; reaching growth fails the harness)"

PROPS = {}

HOOK_COMMITS = ["ebc560a"]

NOTES = (
	"Technique family: solver-based checking of the real code. Every check is a set of Kani proof harnesses over "
	"functions compiled from /repo's current working tree; CBMC+cadical decide each assertion for all values of the "
	"symbolic inputs within the stated bounds (unwinding assertions on). Exit 2 = inconclusive (timeout, memory, "
	"unsatisfied cover, non-reproducing counter-example); it is never reported as a pass. The driver loop of "
	"Value::parse_in (src/parse/value.rs) and whole-document parsing are outside every claim (DESIGN.md §4 S2)."
)

# Properties not claimed. Kept current: an id is dropped from this table when a
# check for it is registered in PROPS.
NOT_APPLICABLE = {
	"C03": "unbounded resource property (stack use independent of nesting depth up to 10^6 levels, no overflow): bounded model checking says nothing beyond a handful of unwindings and whole-document parsing does not fit in CBMC even at depth 1; panic-freedom/single-pass of the parser units is reported as a by-product under C01/C07",
	"C15": "mutual recursion of unordered_eq over heap Value/Object trees: the smallest non-trivial instances (2 entries per side; 3 for multiplicities) did not finish in 30-68 min under CBMC; what fits (scalars, 1-entry objects) does not exercise the property",
	"C16": "serde derive/visitor plumbing (dyn dispatch), heap containers and float<->text conversion are outside CBMC's reach at any bound that completes",
	"C17": "same as C16; additionally rooted in json-number's lexical float parsing (symbolic-by-symbolic multiplication, floating point)",
	"C18": "serde_json Map/Number containers and float conversions: heap- and float-heavy library code outside CBMC's reach",
	"C19": "quantifies over compile-time macro input (token trees munched by macro_rules!); there is no run-time input to make symbolic and the oracle (parsing the same text) is whole-document parsing, itself out of reach",
}

# Claimed in DESIGN.md but whose check is not registered yet (construction
# order); entries disappear as soon as PROPS gets the id.
for _pid in ["C01", "C02", "C04", "C05", "C06", "C07", "C08", "C09", "C10", "C11", "C12", "C13", "C14"]:
	NOT_APPLICABLE.setdefault(_pid, "not claimed yet: the check designed in DESIGN.md §4 for this property is not registered at this commit")

# ---------------------------------------------------------------------------
PROPS["C20"] = dict(
	design_ref="DESIGN.md §4 C20",
	level_text="Bounded model checking that is complete for this property: the domain is finite (64 sets, 6 kinds) and each harness quantifies over all of it symbolically, so within the trusted base every operator, iterator interleaving (8 steps) and rendering is decided for every operand.",
	level_note="Trusted: Kani/CBMC/cadical, core::fmt as compiled, the 20-line reference renderer (cross-checked natively against the crate's doc examples). Sets are built from the public constants and observed through the iterator.",
	exhaustive=True,
	functions=[
		"json_syntax::kind::{KindSet,Kind} BitOr/BitAnd/BitOrAssign/BitAndAssign (all operand combinations)",
		"KindSet::{none,all,len,is_empty,iter,from,default}", "KindSetIter::{next,next_back,size_hint,len}",
		"Display for Kind/KindSet/KindSetDisjunction/KindSetConjunction", "Value::{kind,is_kind,is_null,..,is_object}",
	],
	bounds="complete finite domain: all 64 sets, 64x64 set pairs, 64x6 set/kind and 6x6 kind pairs, every interleaving of 8 next/next_back calls; renderings into a 48-byte sink (longest rendering is 44 bytes)",
	outside=[],
	stubs=[],
	assumptions=["sets are constructed from the public constants with set|set and observed through the forward iterator"],
	harnesses=[
		H("c20::c20_construct_observe", "ext", "quick", 120, "b, c: u8 < 64 (all sets, all pairs for ==)", "unwind 8"),
		H("c20::c20_ops_set_set", "ext", "quick", 120, "a, b: u8 < 64 (all 64x64 pairs)", "unwind 8"),
		H("c20::c20_ops_with_kind", "ext", "quick", 120, "a: u8 < 64, i, j: kind index < 6", "unwind 8"),
		H("c20::c20_iter_interleavings", "ext", "quick", 300, "b: u8 < 64, choice: u8 (front/back per step, 8 steps)", "unwind 10"),
		H("c20::c20_render_display", "ext", "quick", 900, "b: u8 < 64", "unwind 10, 48-byte sink"),
		H("c20::c20_render_disjunction", "ext", "quick", 900, "b: u8 < 64", "unwind 10, 48-byte sink"),
		H("c20::c20_render_conjunction", "ext", "quick", 900, "b: u8 < 64", "unwind 10, 48-byte sink"),
		H("c20::c20_kind_display", "ext", "quick", 120, "i: kind index < 6", "unwind 10"),
		H("c20::c20_value_kind", "ext", "quick", 120, "variant index < 6, boolean payload, queried kind index < 6", "unwind 4"),
	],
)

# ---------------------------------------------------------------------------
_OPT_P1 = "option record: every numeric field <= 4096, indent Spaces(0..=4)|Tabs(0..=2), both limits over None|Always|Item(<=8)|Width(<=65536)|ItemOrWidth; children: symbolic Size (Expanded | Width(<=4096)), child i pushes (i+1)%3 slots; (k+1)%2 pre-existing slots"
_OPT_P2 = "option record: every numeric field 0..=3, indent Spaces(0..=4)|Tabs(0..=2), depth 0..=2, own slot at index 0..=1 holding Expanded or Width(any); children: one symbolic ASCII byte and 0..=2 consumed slots each"

PROPS["C13"] = dict(
	design_ref="DESIGN.md §4 C13",
	level_text="Bounded model checking of the real layout kernels with a fully symbolic option record: the size decision (pre_compute_array_size / pre_compute_object_size) and the emission (print_array / print_object) are each decided for ALL option records within the field bounds and for ARBITRARY children (a child is abstracted by its symbolic Size / emitted byte / consumed slots), which is the inductive step over the value tree; printed_string_size is decided for every scalar value.",
	level_note="One container level per query, k <= 3 children (k <= 2 for object emission); the recursion wrappers (Value::pre_compute_size, impl Print for Value allocating `sizes`, Object's entry iterator adaptor) are exercised only on scalar values (C08/C04 harnesses) - their lock-step recursion over heap trees is read-only, outside the claim. Reference layout written from the field documentation of print::Options.",
	functions=["json_syntax::print::pre_compute_array_size", "json_syntax::print::pre_compute_object_size", "json_syntax::print::print_array",
	           "json_syntax::print::print_object", "json_syntax::print::printed_string_size", "json_syntax::print::string_literal",
	           "Display for Indent/IndentBy/Spaces", "Size::add"],
	bounds="k <= 3 children per level (object emission k <= 2); decision: numeric fields <= 4096, widths <= 4096; emission: numeric fields <= 3, indent unit <= 4 spaces / 2 tabs, depth <= 2, output <= 96 bytes; keys: one arbitrary Unicode scalar value",
	outside=["fields/widths above the bounds", "more than 3 children per level", "recursion wrappers over heap Value trees (lock-step consumption of `sizes`)", "keys longer than one character (string_literal itself: C08)"],
	stubs=[],
	assumptions=["children are abstracted by (Size, slots pushed) for the decision and by (one ASCII byte, slots consumed) for the emission: the kernels are generic over the child type, so this covers any subtree"],
	harnesses=[
		H("print::c13_p1_array_k0", "ext", "quick", 300, _OPT_P1, "k=0, unwind 5"),
		H("print::c13_p1_array_k1", "ext", "quick", 300, _OPT_P1, "k=1, unwind 5"),
		H("print::c13_p1_array_k2", "ext", "quick", 300, _OPT_P1, "k=2, unwind 5"),
		H("print::c13_p1_array_k3", "ext", "quick", 600, _OPT_P1, "k=3, unwind 5"),
		H("print::c13_p1_object_k0", "ext", "quick", 300, _OPT_P1 + "; keys: any char", "k=0, unwind 5"),
		H("print::c13_p1_object_k1", "ext", "quick", 300, _OPT_P1 + "; keys: any char", "k=1, unwind 5"),
		H("print::c13_p1_object_k2", "ext", "quick", 600, _OPT_P1 + "; keys: any char", "k=2, unwind 5"),
		H("print::c13_p1_object_k3", "ext", "quick", 900, _OPT_P1 + "; keys: any char", "k=3, unwind 5"),
		H("print::c13_p2_array_k0", "ext", "quick", 600, _OPT_P2, "k=0, unwind 6, 24-byte sink"),
		H("print::c13_p2_array_k1", "ext", "quick", 900, _OPT_P2, "k=1, unwind 6, 48-byte sink"),
		H("print::c13_p2_array_k2", "ext", "quick", 1200, _OPT_P2, "k=2, unwind 6, 64-byte sink"),
		H("print::c13_p2_array_k3", "ext", "thorough", 3600, _OPT_P2, "k=3, unwind 6, 80-byte sink"),
		H("print::c13_p2_object_k0", "ext", "quick", 600, _OPT_P2, "k=0, unwind 6, 24-byte sink"),
		H("print::c13_p2_object_k1", "ext", "quick", 1200, _OPT_P2 + "; keys: any char", "k=1, unwind 6, 64-byte sink"),
		H("print::c13_p2_object_k2", "ext", "thorough", 3600, _OPT_P2 + "; keys: any char", "k=2, unwind 6, 96-byte sink"),
		H("print::c08_string_literal_1char", "ext", "quick", 900, "c: any Unicode scalar value (1,112,064 one-character strings)", "unwind 6"),
		H("print::c08_string_literal_2chars", "ext", "quick", 900, "c1, c2 from a 12-character escape-relevant alphabet", "unwind 6"),
	],
)
