// Native replay helper of /verif/drv: parses each argument (a hex-encoded UTF-8
// document) with the REAL json-syntax (Value::parse_str) and prints verdict,
// error, code map and a structural dump of the value, one line per document.
use json_syntax::{Parse, Value};

fn dump(v: &Value, out: &mut String) {
	match v {
		Value::Null => out.push_str("null"),
		Value::Boolean(b) => out.push_str(if *b { "true" } else { "false" }),
		Value::Number(n) => {
			out.push('#');
			out.push_str(n.as_str());
		}
		Value::String(s) => {
			out.push('$');
			for b in s.as_bytes() {
				out.push_str(&format!("{:02x}", b));
			}
		}
		Value::Array(a) => {
			out.push('[');
			for (i, x) in a.iter().enumerate() {
				if i > 0 {
					out.push(',');
				}
				dump(x, out);
			}
			out.push(']');
		}
		Value::Object(o) => {
			out.push('{');
			for (i, e) in o.iter().enumerate() {
				if i > 0 {
					out.push(',');
				}
				out.push('$');
				for b in e.key.as_bytes() {
					out.push_str(&format!("{:02x}", b));
				}
				out.push(':');
				dump(&e.value, out);
			}
			out.push('}');
		}
	}
}

fn main() {
	for arg in std::env::args().skip(1) {
		let bytes: Vec<u8> = (0..arg.len() / 2).map(|i| u8::from_str_radix(&arg[2 * i..2 * i + 2], 16).unwrap()).collect();
		let text = String::from_utf8(bytes).unwrap();
		match Value::parse_str(&text) {
			Ok((v, cm)) => {
				let mut d = String::new();
				dump(&v, &mut d);
				let m: Vec<String> = cm.as_slice().iter().map(|e| format!("{}-{}-{}", e.span.start(), e.span.end(), e.volume)).collect();
				println!("OK {} {}", m.join(";"), d);
			}
			Err(json_syntax::parse::Error::Unexpected(p, c)) => match c {
				Some(c) => println!("ERR Unexpected {} {}", p, c as u32),
				None => println!("ERR Unexpected {} None", p),
			},
			Err(e) => println!("ERR other {:?}", e),
		}
	}
}
