// Native replay helper of /verif/drv: parses each argument (a hex-encoded UTF-8
// document) with the REAL json-syntax (Value::parse_str) and prints verdict,
// error, code map and a structural dump of the value, one line per document.
use json_syntax::{Parse, Value};

fn dump(v: &Value, out: &mut String) {
	match v {
		Value::Null => out.push_str("null"),
		Value::Boolean(b) => out.push_str(if *b { "true" } else { "false" }),
		Value::Number(n) => {
			out.push('#');
			out.push_str(n.as_str());
		}
		Value::String(s) => {
			out.push('$');
			for b in s.as_bytes() {
				out.push_str(&format!("{:02x}", b));
			}
		}
		Value::Array(a) => {
			out.push('[');
			for (i, x) in a.iter().enumerate() {
				if i > 0 {
					out.push(',');
				}
				dump(x, out);
			}
			out.push(']');
		}
		Value::Object(o) => {
			out.push('{');
			for (i, e) in o.iter().enumerate() {
				if i > 0 {
					out.push(',');
				}
				out.push('$');
				for b in e.key.as_bytes() {
					out.push_str(&format!("{:02x}", b));
				}
				out.push(':');
				dump(&e.value, out);
			}
			out.push('}');
		}
	}
}

fn kv(e: &json_syntax::object::Entry) -> String {
	let mut d = String::new();
	dump(&e.value, &mut d);
	format!("{}={}", e.key.as_str(), d)
}

fn state(o: &json_syntax::Object) -> String {
	let es: Vec<String> = o.iter().map(kv).collect();
	let mut keys: Vec<&str> = o.iter().map(|e| e.key.as_str()).collect();
	keys.sort();
	keys.dedup();
	let qs: Vec<String> = keys
		.iter()
		.map(|k| {
			let ix: Vec<String> = o.indexes_of(*k).map(|i| i.to_string()).collect();
			let vs: Vec<String> = o.get_entries(*k).map(kv).collect();
			format!("{}:{}:{}:{:?}", k, ix.join("."), vs.join("."), o.index_of(*k))
		})
		.collect();
	let c = o.clone();
	let cs: Vec<String> = c.iter().map(kv).collect();
	// laws on pairs of different objects built by pushes: R = the entries reversed, T = without the first
	let laws = if o.len() >= 2 {
		use std::hash::{Hash, Hasher};
		let build = |it: &mut dyn Iterator<Item = &json_syntax::object::Entry>| {
			let mut x = json_syntax::Object::new();
			for e in it {
				x.push(e.key.clone(), e.value.clone());
			}
			x
		};
		let h = |x: &json_syntax::Object| {
			let mut s = std::collections::hash_map::DefaultHasher::new();
			x.hash(&mut s);
			s.finish()
		};
		let law = |x: &json_syntax::Object| {
			format!("{} {} {:?} {:?} {:?}{}", o == x, x == o, o.cmp(x), x.cmp(o), o.partial_cmp(x), if o == x && h(o) == h(x) { " hash-same" } else if o == x { " hash-differs" } else { "" })
		};
		let r = build(&mut o.iter().rev());
		let t = build(&mut o.iter().skip(1));
		format!(" L {} | {}", law(&r), law(&t))
	} else {
		String::new()
	};
	let (hash_same, rebuilt) = {
		use std::hash::{Hash, Hasher};
		let h = |x: &json_syntax::Object| {
			let mut s = std::collections::hash_map::DefaultHasher::new();
			x.hash(&mut s);
			s.finish()
		};
		// the same entries pushed onto a fresh object
		let mut b = json_syntax::Object::new();
		for e in o.iter() {
			b.push(e.key.clone(), e.value.clone());
		}
		(h(o) == h(&c), format!("{} {} {:?} {}", *o == b, b == *o, o.cmp(&b), h(o) == h(&b)))
	};
	format!("S {} Q {} C {} {} {:?} H {} B {}{}", es.join(","), qs.join(";"), c == *o, cs.join(","), c.cmp(o), hash_same, rebuilt, laws)
}

/// `obj OP OP ...`: replays a history of Object operations on the REAL Object and prints,
/// per operation, its result, the entries and every key-based query (or PANIC).
fn obj_mode(ops: &[String]) {
	use json_syntax::{Object, Value};
	let mut o = Object::new();
	for op in ops {
		let f: Vec<&str> = op.split(':').collect();
		let r = std::panic::catch_unwind(std::panic::AssertUnwindSafe(|| {
			let val = |s: &str| Value::from(s.parse::<i64>().unwrap());
			let take = |it: &mut dyn Iterator<Item = json_syntax::object::Entry>, c: usize| -> String {
				let mut out = vec![];
				for _ in 0..c {
					match it.next() {
						Some(e) => out.push(kv(&e)),
						None => out.push("-".to_string()),
					}
				}
				out.join("|")
			};
			match f[0] {
				"push" => format!("{}", o.push(f[1].into(), val(f[2]))),
				"push_front" => format!("{}", o.push_front(f[1].into(), val(f[2]))),
				"remove_at" => match o.remove_at(f[1].parse().unwrap()) {
					Some(e) => kv(&e),
					None => "none".to_string(),
				},
				"insert" => match o.insert(f[1].into(), val(f[2])) {
					Some(mut it) => format!("some:{}", take(&mut it, f[3].parse().unwrap())),
					None => "none".to_string(),
				},
				"insert_front" => {
					let mut it = o.insert_front(f[1].into(), val(f[2]));
					format!("it:{}", take(&mut it, f[3].parse().unwrap()))
				}
				"remove" => {
					let mut it = o.remove(f[1]);
					format!("it:{}", take(&mut it, f[2].parse().unwrap()))
				}
				"remove_unique" => match o.remove_unique(f[1]) {
					Ok(None) => "ok:none".to_string(),
					Ok(Some(e)) => format!("ok:{}", kv(&e)),
					Err(json_syntax::object::Duplicate(a, b)) => format!("dup:{},{}", kv(&a), kv(&b)),
				},
				"sort" => {
					o.sort();
					"-".to_string()
				}
				"canon" => {
					o.canonicalize();
					"-".to_string()
				}
				_ => "?".to_string(),
			}
		}));
		match r {
			Ok(res) => {
				let st = std::panic::catch_unwind(std::panic::AssertUnwindSafe(|| state(&o)));
				match st {
					Ok(st) => println!("R {} {}", res, st),
					Err(_) => {
						println!("R {} PANIC-in-queries", res);
						return;
					}
				}
			}
			Err(_) => {
				println!("PANIC");
				return;
			}
		}
	}
}

fn main() {
	let args: Vec<String> = std::env::args().skip(1).collect();
	if args.first().map(|s| s.as_str()) == Some("mapped") {
		std::panic::set_hook(Box::new(|_| {}));
	}
	if args.first().map(|s| s.as_str()) == Some("canon") {
		// `canon JSON`: canonicalize() once and twice on the real parsed value (compact texts), and whether every
		// object's index answers for each of its keys with exactly the positions of that key
		use json_syntax::{Parse, Print, Value};
		fn index_ok(v: &Value) -> bool {
			match v {
				Value::Array(a) => a.iter().all(index_ok),
				Value::Object(o) => {
					o.entries().iter().all(|e| {
						let want: Vec<usize> = o.entries().iter().enumerate().filter(|(_, f)| f.key == e.key).map(|(i, _)| i).collect();
						let got: Vec<usize> = o.get_entries_with_index(e.key.as_str()).map(|(i, _)| i).collect();
						got == want
					}) && o.entries().iter().all(|e| index_ok(&e.value))
				}
				_ => true,
			}
		}
		let (mut v, _) = Value::parse_str(&args[1]).unwrap();
		v.canonicalize();
		let first = v.compact_print().to_string();
		let idx = index_ok(&v);
		v.canonicalize();
		println!("{}\t{}\t{}", first, v.compact_print(), if idx { "index-ok" } else { "index-stale" });
		return;
	}
	if args.first().map(|s| s.as_str()) == Some("unordn") {
		// `unordn JSON JSON`: unordered_eq(A, B) and unordered_eq(B, A) on the real parsed values
		use json_syntax::{Parse, UnorderedPartialEq, Value};
		let (a, _) = Value::parse_str(&args[1]).unwrap();
		let (b, _) = Value::parse_str(&args[2]).unwrap();
		println!("{} {}", a.unordered_eq(&b), b.unordered_eq(&a));
		return;
	}
	if args.first().map(|s| s.as_str()) == Some("unord") {
		// `unord k=v,k=v k=v,k=v`: unordered_eq(A, B) and unordered_eq(B, A) on the real Object
		use json_syntax::{Object, UnorderedPartialEq, Value};
		let build = |s: &str| -> Object {
			let mut o = Object::new();
			for kv in s.split(',').filter(|x| !x.is_empty()) {
				let (k, v) = kv.split_once('=').unwrap();
				o.push(k.into(), Value::from(v.parse::<i64>().unwrap()));
			}
			o
		};
		let a = build(args.get(1).map(|s| s.as_str()).unwrap_or(""));
		let b = build(args.get(2).map(|s| s.as_str()).unwrap_or(""));
		println!("{} {}", a.unordered_eq(&b), b.unordered_eq(&a));
		return;
	}
	if args.first().map(|s| s.as_str()) == Some("mapped") {
		// `mapped k:vol,k:vol QUERY`: parses {"k":[0,..],..} (value i has `vol` fragments) with the real parser and
		// prints the offsets yielded by the real get_mapped_entries / get_mapped for QUERY
		use json_syntax::{Parse, Value};
		let mut doc = String::from("{");
		for (i, kv) in args[1].split(',').filter(|x| !x.is_empty()).enumerate() {
			let (k, v) = kv.split_once(':').unwrap();
			let n: usize = v.parse().unwrap();
			if i > 0 {
				doc.push(',');
			}
			doc.push_str(&format!("\"{}\":[{}]", k, vec!["0"; n - 1].join(",")));
		}
		doc.push('}');
		let (v, cm) = Value::parse_str(&doc).unwrap();
		let o = v.as_object().unwrap();
		let q = args.get(2).map(|s| s.as_str()).unwrap_or("");
		let r = std::panic::catch_unwind(std::panic::AssertUnwindSafe(|| {
			let es: Vec<String> = o.get_mapped_entries(&cm, 0, q).map(|e| format!("{}.{}.{}", e.offset, e.value.key.offset, e.value.value.offset)).collect();
			let vs: Vec<String> = o.get_mapped(&cm, 0, q).map(|e| format!("{}", e.offset)).collect();
			let is: Vec<String> = o.iter_mapped(&cm, 0).map(|e| format!("{}.{}.{}", e.offset, e.value.key.offset, e.value.value.offset)).collect();
			let ws: Vec<String> = o.get_mapped_entries_with_index(&cm, 0, q).map(|(i, e)| format!("{}@{}.{}.{}", i, e.offset, e.value.key.offset, e.value.value.offset)).collect();
			let xs: Vec<String> = o.get_mapped_with_index(&cm, 0, q).map(|(i, e)| format!("{}@{}", i, e.offset)).collect();
			let u1 = match o.get_unique_mapped_entry(&cm, 0, q) {
				Ok(None) => "none".to_string(),
				Ok(Some(e)) => format!("one:{}", e.offset),
				Err(d) => format!("dup:{}+{}", d.0.offset, d.1.offset),
			};
			let u2 = match o.get_unique_mapped(&cm, 0, q) {
				Ok(None) => "none".to_string(),
				Ok(Some(e)) => format!("one:{}", e.offset),
				Err(d) => format!("dup:{}+{}", d.0.offset, d.1.offset),
			};
			let u3 = match o.get_unique_mapped_entry_with_index(&cm, 0, q) {
				Ok(None) => "none".to_string(),
				Ok(Some((i, e))) => format!("one:{}@{}", i, e.offset),
				Err(d) => format!("dup:{}@{}+{}@{}", d.0 .0, d.0 .1.offset, d.1 .0, d.1 .1.offset),
			};
			let u4 = match o.get_unique_mapped_with_index(&cm, 0, q) {
				Ok(None) => "none".to_string(),
				Ok(Some((i, e))) => format!("one:{}@{}", i, e.offset),
				Err(d) => format!("dup:{}@{}+{}@{}", d.0 .0, d.0 .1.offset, d.1 .0, d.1 .1.offset),
			};
			format!("E {} V {} I {} W {} X {} U {} {} {} {}", es.join(";"), vs.join(";"), is.join(";"), ws.join(";"), xs.join(";"), u1, u2, u3, u4)
		}));
		match r {
			Ok(l) => println!("{}", l),
			Err(_) => println!("PANIC"),
		}
		return;
	}
	if args.first().map(|s| s.as_str()) == Some("frag") {
		// `frag JSON [INDEX]`: get_fragment(i) for i = 0..total+2 (and INDEX), traverse() and volume() of the real value
		use json_syntax::{FragmentRef, Parse, Value};
		std::panic::set_hook(Box::new(|_| {}));
		let (v, _) = Value::parse_str(&args[1]).unwrap();
		use json_syntax::Print;
		let kind = |f: &FragmentRef| match f {
			FragmentRef::Value(v) => format!("V{}", v.compact_print()),
			FragmentRef::Entry(e) => format!("E{}", e.key.as_str()),
			FragmentRef::Key(k) => format!("K{}", k.as_str()),
		};
		let r = std::panic::catch_unwind(std::panic::AssertUnwindSafe(|| {
			let total = v.traverse().count();
			let mut idx: Vec<usize> = (0..total + 3).collect();
			if let Some(i) = args.get(2) {
				idx.push(i.parse().unwrap());
			}
			let g: Vec<String> = idx
				.iter()
				.map(|i| match v.get_fragment(*i) {
					Ok(f) => format!("{}={}", i, kind(&f)),
					Err(e) => format!("{}=Err{}", i, e),
				})
				.collect();
			let t: Vec<String> = v.traverse().map(|(i, f)| format!("{}={}", i, kind(&f))).collect();
			format!("G {} T {} N {}", g.join(" "), t.join(" "), v.volume())
		}));
		match r {
			Ok(l) => println!("{}", l),
			Err(_) => println!("PANIC"),
		}
		return;
	}
	if args.first().map(|s| s.as_str()) == Some("convmap") {
		// `convmap JSON`: parses [[0],JSON] (JSON at offset 3) and prints the real BTreeMap::<String, bool>::try_from_json_at
		// (the std impl needs V::Error: From<Mapped<Infallible>>, which bool's own error type is not: V is a newtype
		// over bool whose error keeps the offset and the kinds)
		use json_syntax::{code_map::Mapped, CodeMap, Kind, KindSet, Parse, TryFromJson, Unexpected, Value};
		use std::collections::BTreeMap;
		struct Mismatch(usize, KindSet, Kind);
		impl From<Mapped<Unexpected>> for Mismatch {
			fn from(e: Mapped<Unexpected>) -> Self {
				Mismatch(e.offset, e.value.expected, e.value.found)
			}
		}
		impl From<Mapped<std::convert::Infallible>> for Mismatch {
			fn from(e: Mapped<std::convert::Infallible>) -> Self {
				match e.value {}
			}
		}
		struct Flag(bool);
		impl TryFromJson for Flag {
			type Error = Mismatch;
			fn try_from_json_at(v: &Value, code_map: &CodeMap, offset: usize) -> Result<Self, Mismatch> {
				Ok(Flag(bool::try_from_json_at(v, code_map, offset)?))
			}
		}
		std::panic::set_hook(Box::new(|_| {}));
		let doc = format!("[[0],{}]", args[1]);
		let (outer, cm) = Value::parse_str(&doc).unwrap();
		let target = &outer.as_array().unwrap()[1];
		let r = std::panic::catch_unwind(std::panic::AssertUnwindSafe(|| match BTreeMap::<String, Flag>::try_from_json_at(target, &cm, 3) {
			Ok(m) => format!("OK {}", m.iter().map(|(k, v)| format!("{}={}", k, v.0)).collect::<Vec<_>>().join(",")),
			Err(e) => format!("ERR {} {} {:?}", e.0, if e.1 == KindSet::BOOLEAN { "BOOLEAN" } else if e.1 == KindSet::OBJECT { "OBJECT" } else { "OTHER" }, e.2),
		}));
		match r {
			Ok(l) => println!("{}", l),
			Err(_) => println!("PANIC"),
		}
		return;
	}
	if args.first().map(|s| s.as_str()) == Some("convert") {
		// `convert DEPTH JSON`: parses [[0],JSON] with the real parser (JSON at offset 3) and prints the real
		// Vec::<bool> (DEPTH 1) or Vec::<Vec<bool>> (DEPTH 2) ::try_from_json_at(V, code map, 3)
		use json_syntax::{code_map::Mapped, KindSet, Parse, TryFromJson, Unexpected, Value};
		std::panic::set_hook(Box::new(|_| {}));
		let doc = format!("[[0],{}]", args[2]);
		let (outer, cm) = Value::parse_str(&doc).unwrap();
		let target = &outer.as_array().unwrap()[1];
		let show = |e: Mapped<Unexpected>| {
			format!(
				"ERR {} {} {:?}",
				e.offset,
				if e.value.expected == KindSet::BOOLEAN { "BOOLEAN" } else if e.value.expected == KindSet::ARRAY { "ARRAY" } else { "OTHER" },
				e.value.found
			)
		};
		let r = std::panic::catch_unwind(std::panic::AssertUnwindSafe(|| {
			if args[1] == "1" {
				match Vec::<bool>::try_from_json_at(target, &cm, 3) {
					Ok(bs) => format!("OK {:?}", bs),
					Err(e) => show(e),
				}
			} else {
				match Vec::<Vec<bool>>::try_from_json_at(target, &cm, 3) {
					Ok(bs) => format!("OK {:?}", bs),
					Err(e) => show(e),
				}
			}
		}));
		match r {
			Ok(l) => println!("{}", l),
			Err(_) => println!("PANIC"),
		}
		return;
	}
	if args.first().map(|s| s.as_str()) == Some("obj") {
		std::panic::set_hook(Box::new(|_| {}));
		obj_mode(&args[1..]);
		return;
	}
	for arg in std::env::args().skip(1) {
		let bytes: Vec<u8> = (0..arg.len() / 2).map(|i| u8::from_str_radix(&arg[2 * i..2 * i + 2], 16).unwrap()).collect();
		let text = String::from_utf8(bytes).unwrap();
		match Value::parse_str(&text) {
			Ok((v, cm)) => {
				let mut d = String::new();
				dump(&v, &mut d);
				let m: Vec<String> = cm.as_slice().iter().map(|e| format!("{}-{}-{}", e.span.start(), e.span.end(), e.volume)).collect();
				println!("OK {} {}", m.join(";"), d);
			}
			Err(json_syntax::parse::Error::Unexpected(p, c)) => match c {
				Some(c) => println!("ERR Unexpected {} {}", p, c as u32),
				None => println!("ERR Unexpected {} None", p),
			},
			Err(e) => println!("ERR other {:?}", e),
		}
	}
}
