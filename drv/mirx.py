#!/usr/bin/env python3
"""
mirx.py — symbolic execution of the MIR of json-syntax's driver loop.

The functions of src/parse/value.rs (`<Value as Parse>::parse_in`, the explicit
stack machine; `<Fragment as Parse>::parse_in`, the first-character dispatch;
`Fragment::value_or_parse`; `stack_context`; the closures and `From` impl they
use) are taken from the compiler's MIR dump of /repo's CURRENT tree
(`cargo +nightly rustc -- -Zunpretty=mir`, regenerated on every run) and
executed symbolically by this interpreter:

  * the input is N symbolic characters c_0..c_{N-1} (z3 integers ranging over
    all Unicode scalar values); every branch on a character forks the path and
    z3 decides which sides are feasible;
  * the callees of the driver are replaced by CONTRACT MODELS written from the
    reference automata that the Kani unit harnesses compare the real units
    with (literals, number DFA + follow set, string scanner, array/object
    start/continue fragments, the Parser primitives), and by models of the
    std/locspan functions (Vec, Option::take, Try::branch, Meta::map ...);
  * at the end of every path the result (verdict, error offset and character,
    value tree, complete code map, characters pulled) is compared with an
    independent single-pass pushdown reference for RFC 8259 documents executed
    on the same symbolic characters; a feasible path on which they differ is a
    counter-example, whose characters z3 provides.

This file is the generic part: MIR text parser, values, places, interpreter.
"""
import re
import sys

import z3


class MirError(Exception):
	pass


# ---------------------------------------------------------------------------
# MIR text -> functions


class Fn:
	def __init__(self, header):
		self.header = header
		self.blocks = {}
		self.nparams = header.split("(", 1)[1].count("_") if "(" in header else 0
		# parameter locals: _1.._k, read from the header
		self.params = [int(m) for m in re.findall(r"[(,]\s*_(\d+):", header)]

	def __repr__(self):
		return "Fn(%s)" % self.header[:80]


def parse_mir(text):
	fns = []
	cur = None
	blk = None
	for line in text.split("\n"):
		if line.startswith("fn ") and line.rstrip().endswith("{"):
			cur = Fn(line[3:].rstrip()[:-1].strip())
			fns.append(cur)
			blk = None
			continue
		if cur is None:
			continue
		if line.startswith("}"):
			cur = None
			continue
		m = re.match(r"^    bb(\d+)( \(cleanup\))?: \{\s*$", line)
		if m:
			blk = []
			cur.blocks[int(m.group(1))] = blk
			continue
		if re.match(r"^    \}\s*$", line):
			blk = None
			continue
		if blk is not None and line.startswith("        "):
			s = line.strip()
			if s:
				blk.append(s)
	return fns


# ---------------------------------------------------------------------------
# small lexer helpers (balanced scanning)

OPEN = "([{<"
CLOSE = ")]}>"


def match_close(s, i):
	"""index of the bracket closing the one at s[i] ('->' and '=>' are not brackets)"""
	depth = 0
	j = i
	while j < len(s):
		c = s[j]
		if c in OPEN:
			depth += 1
		elif c in CLOSE:
			if c == ">" and j > 0 and s[j - 1] in "-=":
				j += 1
				continue
			depth -= 1
			if depth == 0:
				return j
		elif c == "'":
			# char literal such as '(' or '\''
			m = re.match(r"'(\\.|[^'\\])'", s[j:])
			if m:
				j += m.end()
				continue
		j += 1
	raise MirError("unbalanced: " + s)


def split_top(s, sep=","):
	out = []
	depth = 0
	cur = ""
	j = 0
	while j < len(s):
		c = s[j]
		if c == "'":
			m = re.match(r"'(\\.|[^'\\])'", s[j:])
			if m:
				cur += m.group(0)
				j += m.end()
				continue
		if c in OPEN:
			depth += 1
		elif c in CLOSE and not (c == ">" and j > 0 and s[j - 1] in "-="):
			depth -= 1
		if c == sep and depth == 0:
			out.append(cur.strip())
			cur = ""
		else:
			cur += c
		j += 1
	if cur.strip():
		out.append(cur.strip())
	return out


def strip_generics(path):
	"""`Vec::<StackItem>::push` -> `Vec::push`; `<Result<A, B> as Try>::branch` ->
	`<Result as Try>::branch`; `core::slice::<impl [T]>::last` -> `core::slice::last`."""
	out = ""
	j = 0
	while j < len(path):
		c = path[j]
		if c == "<":
			prev = out[-1] if out else ""
			if prev and (prev == ":" or prev.isalnum() or prev in "_])"):
				k = match_close(path, j)
				if out.endswith("::"):
					out = out[:-2]
				j = k + 1
				continue
		out += c
		j += 1
	return out


# ---------------------------------------------------------------------------
# values (all immutable)


class Agg(tuple):
	"""aggregate: (ty, variant, fields)"""
	__slots__ = ()

	def __new__(cls, ty, variant, fields):
		return tuple.__new__(cls, (ty, variant, tuple(fields)))

	ty = property(lambda s: s[0])
	variant = property(lambda s: s[1])
	fields = property(lambda s: s[2])

	def __repr__(self):
		n = self.ty + ("::" + self.variant if self.variant else "")
		return n + ("(" + ", ".join(map(repr, self.fields)) + ")" if self.fields else "")


class Ref(tuple):
	"""reference to a location: (frame index, local, path)"""
	__slots__ = ()

	def __new__(cls, frame, local, path=()):
		return tuple.__new__(cls, (frame, local, tuple(path)))

	def __repr__(self):
		return "&f%d._%d%s" % (self[0], self[1], "".join(".%s" % p for p in self[2]))


class FnItem(str):
	pass


class Closure(str):
	pass


class CallFn:
	"""returned by a model instead of a value: continue by calling this MIR function"""

	def __init__(self, fn, args):
		self.fn = fn
		self.args = args


UNIT = Agg("()", None, ())


def some(v):
	return Agg("Option", "Some", (v,))


NONE = Agg("Option", "None", ())


def ok(v):
	return Agg("Result", "Ok", (v,))


def err(v):
	return Agg("Result", "Err", (v,))


def meta(v, m):
	return Agg("Meta", None, (v, m))


STD_ENUMS = {
	"Option": ["None", "Some"],
	"Result": ["Ok", "Err"],
	"ControlFlow": ["Continue", "Break"],
}


def enums_from_source(paths):
	"""variant order of every `enum` declared in the given Rust sources"""
	out = {}
	for p in paths:
		try:
			t = open(p).read()
		except OSError:
			continue
		t = re.sub(r"//[^\n]*", "", t)
		for m in re.finditer(r"\benum\s+(\w+)\s*(<[^>{]*>)?\s*\{", t):
			k = match_close(t, m.end() - 1)
			body = t[m.end():k]
			vs = []
			for part in split_top(body):
				part = re.sub(r"#\[[^\]]*\]", "", part).strip()
				mm = re.match(r"(\w+)", part)
				if mm:
					vs.append(mm.group(1))
			out[m.group(1)] = vs
	return out


# ---------------------------------------------------------------------------
# places and operands


class Place:
	def __init__(self, local, proj):
		self.local = local
		self.proj = proj  # list of ('deref',) | ('field', n) | ('downcast', name)

	def __repr__(self):
		return "_%d%s" % (self.local, "".join(str(p) for p in self.proj))


def parse_place(s):
	s = s.strip()
	m = re.match(r"^_(\d+)$", s)
	if m:
		return Place(int(m.group(1)), [])
	m = re.match(r"^(.*)\[_(\d+)\]$", s, re.S)
	if m and (m.group(1).startswith("(") and match_close(m.group(1), 0) == len(m.group(1)) - 1 or re.match(r"^_\d+$", m.group(1))):
		p = parse_place(m.group(1))
		return Place(p.local, p.proj + [("index", int(m.group(2)))])
	if s.startswith("(*") and match_close(s, 0) == len(s) - 1:
		p = parse_place(s[2:-1])
		return Place(p.local, p.proj + [("deref",)])
	if s.startswith("(") and match_close(s, 0) == len(s) - 1:
		inner = s[1:-1]
		# (PLACE as Variant)  or  (PLACE.N: TYPE)
		# find the inner place: either starts with '(' (balanced) or is _N
		if inner.startswith("("):
			k = match_close(inner, 0)
			head, rest = inner[: k + 1], inner[k + 1 :]
		else:
			m = re.match(r"^(_\d+)(.*)$", inner, re.S)
			if not m:
				raise MirError("place? " + s)
			head, rest = m.group(1), m.group(2)
		p = parse_place(head)
		m = re.match(r"^\[_(\d+)\](.*)$", rest, re.S)
		if m:
			p = Place(p.local, p.proj + [("index", int(m.group(1)))])
			rest = m.group(2)
			if rest == "":
				return p
		m = re.match(r"^ as (\w+)$", rest)
		if m:
			return Place(p.local, p.proj + [("downcast", m.group(1))])
		m = re.match(r"^\.(\d+): ", rest)
		if m:
			return Place(p.local, p.proj + [("field", int(m.group(1)))])
		raise MirError("place projection? " + s)
	raise MirError("place? " + s)


def parse_const(s):
	s = s.strip()
	if s in ("true", "false"):
		return s == "true"
	if s == "()":
		return UNIT
	m = re.match(r"^(-?\d+)_(\w+)$", s)
	if m:
		return int(m.group(1))
	m = re.match(r"^'(\\.|[^'\\])'$", s)
	if m:
		c = m.group(1)
		esc = {"\\n": "\n", "\\t": "\t", "\\r": "\r", "\\'": "'", "\\\\": "\\", '\\"': '"', "\\0": "\0"}
		return ord(esc.get(c, c))
	m = re.match(r"^'\\u\{([0-9a-fA-F]+)\}'$", s)
	if m:
		return int(m.group(1), 16)
	m = re.match(r"^ZeroSized: (.*)$", s)
	if m:
		t = m.group(1)
		if t.startswith("{closure@"):
			return Closure(t)
		return FnItem(strip_generics(t))
	m = re.match(r"^(?:\w+::)*(\w+)::([A-Z][A-Z0-9_]*)$", s)
	if m:
		# associated constant (KindSet::ARRAY ...): an opaque named value
		return Agg("const", m.group(1) + "::" + m.group(2), ())
	raise MirError("const? " + s)


# ---------------------------------------------------------------------------
# interpreter state


class Frame:
	__slots__ = ("fn", "locals", "bb", "ip", "dest", "ret_bb")

	def __init__(self, fn, locals_, bb=0, ip=0, dest=None, ret_bb=None):
		self.fn = fn
		self.locals = locals_
		self.bb = bb
		self.ip = ip
		self.dest = dest
		self.ret_bb = ret_bb

	def copy(self):
		return Frame(self.fn, dict(self.locals), self.bb, self.ip, self.dest, self.ret_bb)


class State:
	__slots__ = ("frames", "pc", "steps", "result", "aux")

	def __init__(self):
		self.frames = []
		self.pc = {}  # char index -> tuple of z3 constraints on that character
		self.steps = 0
		self.result = None
		self.aux = {}

	def fork(self):
		s = State()
		s.frames = [f.copy() for f in self.frames]
		s.pc = dict(self.pc)
		s.steps = self.steps
		s.result = self.result
		s.aux = dict(self.aux)
		return s


MAXC = 0x10FFFF


def iv_norm(ivs):
	"""sorted, merged tuple of closed intervals"""
	out = []
	for lo, hi in sorted(ivs):
		if lo > hi:
			continue
		if out and lo <= out[-1][1] + 1:
			out[-1] = (out[-1][0], max(out[-1][1], hi))
		else:
			out.append((lo, hi))
	return tuple(out)


def iv_not(ivs):
	out = []
	nxt = 0
	for lo, hi in ivs:
		if lo > nxt:
			out.append((nxt, lo - 1))
		nxt = hi + 1
	if nxt <= MAXC:
		out.append((nxt, MAXC))
	return tuple(out)


class Cond:
	"""a condition on ONE symbolic character: c_i in (union of closed intervals).
	The interval form is only a canonical NAME for the condition (memo key and
	pretty-printer); its truth is always decided by z3."""
	__slots__ = ("i", "ivs")

	def __init__(self, i, ivs):
		self.i = i
		self.ivs = iv_norm(ivs)

	def negate(self):
		return Cond(self.i, iv_not(self.ivs))

	def __invert__(self):
		return self.negate()

	def __bool__(self):
		raise MirError("symbolic condition used as a concrete boolean")

	def z3(self, var):
		if not self.ivs:
			return z3.BoolVal(False)
		return z3.Or(*[(var == lo) if lo == hi else z3.And(var >= lo, var <= hi) for lo, hi in self.ivs])

	def __repr__(self):
		return "c%d in %s" % (self.i, list(self.ivs))


def c_or(*cs):
	"""disjunction of conditions on the same character (or of concrete booleans)"""
	if all(isinstance(c, bool) for c in cs):
		return any(cs)
	sym = [c for c in cs if isinstance(c, Cond)]
	if any(c is True for c in cs):
		return True
	ivs = []
	for c in sym:
		if c.i != sym[0].i:
			raise MirError("disjunction over different characters")
		ivs += list(c.ivs)
	return Cond(sym[0].i, ivs)


class CharVar:
	"""symbolic character c_i; comparisons with integers yield `Cond`s"""
	__slots__ = ("i",)

	def __init__(self, i):
		self.i = i

	def __eq__(self, k):
		return Cond(self.i, [(k, k)]) if isinstance(k, int) else NotImplemented

	def __ne__(self, k):
		return Cond(self.i, [(k, k)]).negate() if isinstance(k, int) else NotImplemented

	def __lt__(self, k):
		return Cond(self.i, [(0, k - 1)])

	def __le__(self, k):
		return Cond(self.i, [(0, k)])

	def __gt__(self, k):
		return Cond(self.i, [(k + 1, MAXC)])

	def __ge__(self, k):
		return Cond(self.i, [(k, MAXC)])

	def __hash__(self):
		return hash(("c", self.i))

	def __repr__(self):
		return "c%d" % self.i


class Symbolic:
	"""the symbolic characters and the solver that decides path feasibility.

	A path condition is, per character, the sequence of (condition, truth)
	decisions taken on it. Whether a further condition can be true / false
	under such a sequence is decided by z3 (one tiny query over that
	character's integer variable) and memoised under the syntactic key
	(decisions so far, condition), so that the thousands of paths sharing a
	prefix do not repeat the query."""

	MEMO = {}  # shared by all instances with the same base constraints

	def __init__(self, n, excluded=(), allowed=None):
		self.n = n
		self.chars = [CharVar(i) for i in range(n)]
		self.zv = [z3.Int("c%d" % i) for i in range(n)]
		self.excluded = tuple(excluded)
		self.allowed = allowed
		self.queries = 0
		self.solver_time = 0.0
		self.memo = Symbolic.MEMO.setdefault((self.excluded, None if allowed is None else tuple(sorted(allowed))), {})

	def base(self, i):
		c = self.zv[i]
		cs = [c >= 0, c <= MAXC, z3.Or(c < 0xD800, c > 0xDFFF)]
		cs += [c != k for k in self.excluded]
		if self.allowed is not None:
			cs.append(z3.Or(*[c == k for k in self.allowed]))
		return cs

	def alphabet_size(self):
		if self.allowed is not None:
			return len([k for k in self.allowed if k not in self.excluded])
		return MAXC + 1 - 2048 - len([k for k in self.excluded if not 0xD800 <= k <= 0xDFFF])

	def pc_z3(self, i, decisions):
		v = self.zv[i]
		return self.base(i) + [(Cond(i, ivs).z3(v) if truth else z3.Not(Cond(i, ivs).z3(v))) for ivs, truth in decisions]

	def sides(self, decisions, cond):
		"""(can be true, can be false) under the decisions already taken on that character"""
		import time

		key = (decisions, cond.ivs)  # the base constraints are the same for every character
		r = self.memo.get(key)
		if r is not None:
			return r
		t0 = time.time()
		res = []
		for truth in (True, False):
			s = z3.Solver()
			s.add(*self.pc_z3(cond.i, decisions + ((cond.ivs, truth),)))
			res.append(s.check() == z3.sat)
			self.queries += 1
		self.solver_time += time.time() - t0
		r = (res[0], res[1])
		self.memo[key] = r
		return r

	def assume(self, st, cond, truth=True):
		st.pc[cond.i] = st.pc.get(cond.i, ()) + ((cond.ivs, truth),)

	def split(self, st, cond):
		"""[(state, truth)] for the feasible sides of a condition"""
		if isinstance(cond, bool):
			return [(st, cond)]
		t, f = self.sides(st.pc.get(cond.i, ()), cond)
		if t and f:
			s2 = st.fork()
			self.assume(st, cond, True)
			self.assume(s2, cond, False)
			return [(st, True), (s2, False)]
		if t:
			return [(st, True)]
		if f:
			return [(st, False)]
		return []

	def model(self, st):
		"""concrete characters satisfying the path condition of `st` (None if there are none)"""
		import time

		t0 = time.time()
		s = z3.Solver()
		for i in range(self.n):
			s.add(*self.pc_z3(i, st.pc.get(i, ())))
		r = s.check()
		self.solver_time += time.time() - t0
		self.queries += 1
		if r != z3.sat:
			return None
		m = s.model()
		return [m.eval(v, model_completion=True).as_long() for v in self.zv]

	def count(self, st):
		"""number of character arrays satisfying the path condition (exact): used for the
		completeness cross-check (the paths must partition alphabet^n)"""
		total = 1
		for i in range(self.n):
			dom = ((0, 0xD7FF), (0xE000, MAXC))
			if self.allowed is not None:
				dom = iv_norm([(k, k) for k in self.allowed])
			for k in self.excluded:
				dom = iv_and(dom, iv_not(((k, k),)))
			for ivs, truth in st.pc.get(i, ()):
				dom = iv_and(dom, ivs if truth else iv_not(ivs))
			total *= sum(hi - lo + 1 for lo, hi in dom)
		return total


def iv_and(a, b):
	out = []
	for lo1, hi1 in a:
		for lo2, hi2 in b:
			lo, hi = max(lo1, lo2), min(hi1, hi2)
			if lo <= hi:
				out.append((lo, hi))
	return iv_norm(out)


# ---------------------------------------------------------------------------
# the interpreter


class Interp:
	def __init__(self, fns, enums, sym, models, resolve_fn, max_steps=20000):
		self.fns = fns
		self.enums = dict(STD_ENUMS)
		self.enums.update(enums)
		self.sym = sym
		self.models = models  # normalized callee name -> python function
		self.resolve_fn = resolve_fn  # normalized callee name -> Fn or None
		self.max_steps = max_steps
		self.stmt_cache = {}
		self.struct_fields = {}  # struct name -> field names in declaration order
		self.stats = dict(paths=0, steps=0, forks=0)

	# ---- locations
	def resolve(self, st, fi, place):
		"""place -> (frame index, local, path) following derefs"""
		loc = (fi, place.local, ())
		for p in place.proj:
			if p[0] == "deref":
				v = self.read_loc(st, loc)
				if not isinstance(v, Ref):
					raise MirError("deref of non-reference %r at %r" % (v, place))
				loc = (v[0], v[1], v[2])
			elif p[0] == "field":
				loc = (loc[0], loc[1], loc[2] + (p[1],))
			elif p[0] == "index":
				i = st.frames[fi].locals.get(p[1])
				if not isinstance(i, int):
					raise MirError("index by %r" % (i,))
				loc = (loc[0], loc[1], loc[2] + (i,))
			elif p[0] == "downcast":
				v = self.read_loc(st, loc)
				if isinstance(v, Agg) and v.variant != p[1]:
					raise MirError("downcast of %r to %s" % (v, p[1]))
		return loc

	def read_loc(self, st, loc):
		v = st.frames[loc[0]].locals.get(loc[1])
		for k in loc[2]:
			v = self.field_of(v, k)
		return v

	def field_of(self, v, k):
		if isinstance(v, Agg):
			if k >= len(v.fields):
				raise MirError("field %d of %r" % (k, v))
			return v.fields[k]
		hook = self.models.get("@field")
		if hook is not None:
			return hook(v, k)
		raise MirError("field %d of %r" % (k, v))

	def write_loc(self, st, loc, val):
		fr = st.frames[loc[0]]
		if not loc[2]:
			fr.locals[loc[1]] = val
			return
		fr.locals[loc[1]] = self.updated(fr.locals.get(loc[1]), loc[2], val)

	def updated(self, v, path, val):
		if not path:
			return val
		if not isinstance(v, Agg):
			hook = self.models.get("@update")
			if hook is not None:
				return hook(self, v, path, val)
			raise MirError("write into field of %r" % (v,))
		fs = list(v.fields)
		fs[path[0]] = self.updated(fs[path[0]], path[1:], val)
		return Agg(v.ty, v.variant, fs)

	def read_place(self, st, fi, place):
		return self.read_loc(st, self.resolve(st, fi, place))

	# ---- operands / rvalues
	def operand(self, st, fi, s):
		s = s.strip()
		if s.startswith("no_retag "):
			s = s[len("no_retag "):]
		if s.startswith("copy ") or s.startswith("move "):
			return self.read_place(st, fi, parse_place(s[5:]))
		if s.startswith("const "):
			return parse_const(s[6:])
		# bare path: function item (constructor or fn) passed as a value
		return FnItem(strip_generics(s))

	def make_agg(self, path, args):
		p = strip_generics(path)
		segs = p.split("::")
		if len(segs) >= 2 and segs[-2] in self.enums and segs[-1] in self.enums[segs[-2]]:
			return Agg(segs[-2], segs[-1], args)
		return Agg(segs[-1], None, args)

	def discriminant(self, v):
		if isinstance(v, Agg) and v.ty in self.enums:
			return self.enums[v.ty].index(v.variant)
		hook = self.models.get("@discriminant")
		if hook is not None:
			return hook(v)
		raise MirError("discriminant of %r" % (v,))

	BINOPS = {
		"Eq": lambda a, b: a == b,
		"Ne": lambda a, b: a != b,
		"Lt": lambda a, b: a < b,
		"Le": lambda a, b: a <= b,
		"Gt": lambda a, b: a > b,
		"Ge": lambda a, b: a >= b,
		"Add": lambda a, b: a + b,
		"Sub": lambda a, b: a - b,
	}

	def rvalue(self, st, fi, s):
		s = s.strip()
		if s.startswith("no_retag "):
			s = s[len("no_retag "):]
		if s.startswith("copy ") or s.startswith("move ") or s.startswith("const "):
			return self.operand(st, fi, s)
		m = re.match(r"^&(mut |raw mut |raw const )?(.*)$", s)
		if m:
			loc = self.resolve(st, fi, parse_place(m.group(2)))
			return Ref(*loc)
		m = re.match(r"^discriminant\((.*)\)$", s)
		if m:
			return self.discriminant(self.read_place(st, fi, parse_place(m.group(1))))
		m = re.match(r"^(\w+)\((.*)\)$", s)
		if m and m.group(1) in self.BINOPS:
			a, b = [self.operand(st, fi, x) for x in split_top(m.group(2))]
			hook = self.models.get("@binop")
			if hook is not None and not (isinstance(a, (int, bool)) and isinstance(b, (int, bool))):
				r = hook(self, st, m.group(1), a, b)
				if r is not None:
					return r
			return self.BINOPS[m.group(1)](a, b)
		if m and m.group(1) == "PtrMetadata":
			a = self.operand(st, fi, m.group(2))
			hook = self.models.get("@len")
			if hook is None:
				raise MirError("PtrMetadata without a model")
			return hook(self, st, a)
		if m and m.group(1) == "Not":
			a = self.operand(st, fi, m.group(2))
			return (not a) if isinstance(a, bool) else a.negate()
		if s.startswith("(") and match_close(s, 0) == len(s) - 1:
			return Agg("tuple", None, [self.operand(st, fi, x) for x in split_top(s[1:-1])])
		# struct / closure literal:  Path { field: operand, ... }
		if s.endswith("}") and " { " in s:
			j = len(s) - 1
			depth = 0
			while j >= 0:
				if s[j] == "}":
					depth += 1
				elif s[j] == "{":
					depth -= 1
					if depth == 0:
						break
				j -= 1
			path, body = s[:j].strip(), s[j + 1 : -1]
			named = []
			for part in split_top(body):
				k, v = part.split(":", 1)
				named.append((k.strip(), self.operand(st, fi, v)))
			ty = "closure" if path.startswith("{closure@") else strip_generics(path).split("::")[-1]
			if ty == "closure" and len(named) == 1 and named[0][0] == "self":
				# rustc's pretty-printer names every capture after the ROOT variable of the captured path,
				# so several captures of `self.<field>` collapse into one printed `self: ..` entry. How many
				# captures the closure has is read off its body (the highest field of `_1` it uses); the
				# captures are then the last that many temporaries assigned before the literal, in upvar order.
				fr = st.frames[fi]
				pf = fr.fn
				idx = next((k for k, f in enumerate(self.fns) if f is pf), -1)
				cfn = self.resolve_fn("@closure", path + "@@" + str(idx), [])
				ncap = 1
				if cfn is not None:
					for blk_ in cfn.blocks.values() if isinstance(cfn.blocks, dict) else cfn.blocks:
						for stmt in blk_:
							for mm in re.finditer(r"\(?\*?_1\)?\.(\d+):", stmt):
								ncap = max(ncap, int(mm.group(1)) + 1)
				if ncap > 1:
					blk = fr.fn.blocks[fr.bb]
					caps = []
					for prev in blk[: fr.ip - 1]:
						mm = re.match(r"^(_\d+) = ", prev)
						if mm and not re.search(r"-> \[", prev):
							caps.append(fr.locals.get(int(mm.group(1)[1:])))
					if len(caps) >= ncap:
						named = [("self%d" % k, v) for k, v in enumerate(caps[-ncap:])]
			order = self.struct_fields.get(ty)
			d = dict(named)
			if order and set(order) == set(d):
				fields = [d[k] for k in order]
			else:
				fields = [v for _, v in named]
			if ty == "closure":
				# remember which function created the closure: macro-generated impls share source locations
				pf = st.frames[fi].fn
				idx = next((k for k, f in enumerate(self.fns) if f is pf), -1)
				return Agg(path + "@@" + str(idx), None, fields)
			return Agg(ty, None, fields)
		# aggregate: Path(args) | Path
		if s.endswith(")"):
			k = s.rindex("(") if False else None
			# find the '(' matching the final ')'
			depth = 0
			j = len(s) - 1
			while j >= 0:
				if s[j] in CLOSE and not (s[j] == ">" and s[j - 1] in "-="):
					depth += 1
				elif s[j] in OPEN:
					depth -= 1
					if depth == 0:
						break
				j -= 1
			path, args = s[:j], s[j + 1 : -1]
			return self.make_agg(path, [self.operand(st, fi, x) for x in split_top(args)])
		m = re.match(r"^(.*) as .*\(.*\)$", s)
		if m:
			return self.operand(st, fi, m.group(1))
		return self.make_agg(s, [])

	# ---- execution
	def run(self, st):
		"""runs `st` (and every state forked from it) to completion; yields finished states"""
		work = [st]
		while work:
			s = work.pop()
			try:
				succ = self.step(s)
			except MirError as e:
				fr = s.frames[-1] if s.frames else None
				where = "%s bb%d[%d]" % (fr.fn.header[:60], fr.bb, fr.ip) if fr else "?"
				raise MirError("%s  (at %s)" % (e, where))
			for n in succ:
				if n.result is not None:
					self.stats["paths"] += 1
					yield n
				else:
					work.append(n)

	def step(self, st):
		"""executes up to the next fork / return; returns successor states"""
		while True:
			st.steps += 1
			self.stats["steps"] += 1
			if st.steps > self.max_steps:
				raise MirError("step budget exceeded (loop?)")
			fi = len(st.frames) - 1
			fr = st.frames[fi]
			blk = fr.fn.blocks[fr.bb]
			if fr.ip >= len(blk):
				raise MirError("fell off block")
			s = blk[fr.ip]
			fr.ip += 1
			r = self.exec_stmt(st, fi, fr, s)
			if r is not None:
				return r

	def goto(self, fr, bb):
		fr.bb = bb
		fr.ip = 0

	def exec_stmt(self, st, fi, fr, s):
		s = s.rstrip(";")
		if s in ("nop",) or re.match(r"^(StorageLive|StorageDead|FakeRead|PlaceMention|Retag|Coverage|ConstEvalCounter|AscribeUserType|Deinit)\b", s):
			return None
		m = re.match(r"^goto -> bb(\d+)$", s)
		if m:
			self.goto(fr, int(m.group(1)))
			return None
		if s == "return":
			v = fr.locals.get(0)
			st.frames.pop()
			if not st.frames or st.frames[-1].fn is None:
				# back at a sentinel frame (harness root, or a nested run started by a model): complete
				st.result = v if v is not None else UNIT
				st.aux["root"] = dict(st.frames[-1].locals) if st.frames else {}
				if st.frames:
					st.frames.pop()
				return [st]
			caller = st.frames[-1]
			self.write_loc(st, self.resolve(st, len(st.frames) - 1, fr.dest), v)
			self.goto(caller, fr.ret_bb)
			return None
		if s in ("unreachable", "resume") or s.startswith("unwind "):
			raise MirError("reached `%s`" % s)
		m = re.match(r"^switchInt\((.*)\) -> \[(.*)\]$", s)
		if m:
			v = self.operand(st, fi, m.group(1))
			targets = []
			other = None
			for t in split_top(m.group(2)):
				a, b = t.split(":")
				bb = int(b.strip()[2:])
				if a.strip() == "otherwise":
					other = bb
				else:
					targets.append((int(a.strip()), bb))
			return self.switch(st, fr, v, targets, other)
		m = re.match(r"^drop\((.*)\) -> \[return: bb(\d+), .*\]$", s)
		if m:
			hook = self.models.get("@drop")
			if hook is not None:
				# a value whose type implements Drop: run the crate's `drop` on it (the model says which)
				loc = self.resolve(st, fi, parse_place(m.group(1)))
				try:
					v = self.read_loc(st, loc)
				except (MirError, KeyError):
					v = None
				dfn = hook(self, st, v)
				if dfn is not None:
					fr.ip += 0
					st.frames.append(Frame(dfn, {dfn.params[0]: Ref(*loc)}, 0, 0, Place(9999, []), int(m.group(2))))
					return None
			self.goto(fr, int(m.group(2)))
			return None
		m = re.match(r"^assert\((.*)\) -> \[success: bb(\d+).*\]$", s)
		if m:
			first = split_top(m.group(1))[0]
			neg = first.startswith("!")
			c = self.operand(st, fi, first[1:] if neg else first)
			if isinstance(c, bool) and (c == neg):
				raise MirError("PANIC assertion failed: " + m.group(1)[:80])
			self.goto(fr, int(m.group(2)))
			return None
		# call:  DEST = CALLEE(ARGS) -> [return: bbN, unwind ...]
		m = re.match(r"^(.*?) = (.*) -> \[return: bb(\d+), unwind[^\]]*\]$", s)
		if m is None:
			m2 = re.match(r"^(.*?) = (.*) -> unwind .*$", s)
			if m2:
				raise MirError("diverging call: " + s)
		if m:
			dest = parse_place(m.group(1))
			call = m.group(2)
			ret_bb = int(m.group(3))
			j = call.rindex(")")
			# opening parenthesis of the argument list
			depth = 0
			k = j
			while k >= 0:
				if call[k] in CLOSE and not (call[k] == ">" and call[k - 1] in "-="):
					depth += 1
				elif call[k] in OPEN:
					depth -= 1
					if depth == 0:
						break
				k -= 1
			callee = strip_generics(call[:k].strip())
			args = [self.operand(st, fi, x) for x in split_top(call[k + 1 : j])]
			return self.call(st, fi, fr, callee, call[:k].strip(), args, dest, ret_bb)
		# assignment
		m = re.match(r"^(.*?) = (.*)$", s)
		if m:
			v = self.rvalue(st, fi, m.group(2))
			self.write_loc(st, self.resolve(st, fi, parse_place(m.group(1))), v)
			return None
		raise MirError("statement? " + s)

	def switch(self, st, fr, v, targets, other):
		if isinstance(v, bool):
			v = 1 if v else 0
		if isinstance(v, int):
			for a, bb in targets:
				if a == v:
					self.goto(fr, bb)
					return None
			if other is None:
				raise MirError("switchInt without matching target")
			self.goto(fr, other)
			return None
		# symbolic scrutinee
		out = []
		fi = len(st.frames) - 1
		hook = self.models.get("@switch")
		if hook is not None and not isinstance(v, (Cond, CharVar)):
			# solver term (integer / boolean): the model forks on the feasible targets under the state's
			# path condition: [(state, basic block)]
			for s2, bb in hook(self, st, v, targets, other):
				self.goto(s2.frames[fi], bb)
				out.append(s2)
			self.stats["forks"] += max(0, len(out) - 1)
			return out
		is_bool = isinstance(v, Cond)
		if not is_bool and not isinstance(v, CharVar):
			raise MirError("switchInt on %r" % (v,))
		rest = st
		for a, bb in targets:
			cond = (v.negate() if a == 0 else v) if is_bool else (v == a)
			sides = self.sym.split(rest, cond)
			nxt = None
			for s2, truth in sides:
				if truth:
					self.goto(s2.frames[fi], bb)
					out.append(s2)
				else:
					nxt = s2
			if nxt is None:
				rest = None
				break
			rest = nxt
		if rest is not None:
			if other is None:
				raise MirError("switchInt: no otherwise for symbolic value")
			self.goto(rest.frames[fi], other)
			out.append(rest)
		self.stats["forks"] += max(0, len(out) - 1)
		return out

	def call(self, st, fi, fr, callee, raw, args, dest, ret_bb):
		fn = self.resolve_fn(callee, raw, args)
		if fn is not None:
			loc = {}
			for p, a in zip(fn.params, args):
				loc[p] = a
			st.frames.append(Frame(fn, loc, 0, 0, dest, ret_bb))
			return None
		model = self.models.get(callee)
		if model is None:
			raise MirError("no model for callee `%s`" % callee)
		outs = model(self, st, args)
		res = []
		for s2, v in outs:
			if isinstance(v, CallFn):
				loc = {}
				for p, a in zip(v.fn.params, v.args):
					loc[p] = a
				s2.frames.append(Frame(v.fn, loc, 0, 0, dest, ret_bb))
				res.append(s2)
				continue
			f2 = s2.frames[fi]
			self.write_loc(s2, self.resolve(s2, fi, dest), v)
			self.goto(f2, ret_bb)
			res.append(s2)
		self.stats["forks"] += max(0, len(res) - 1)
		if len(res) == 1 and res[0] is st:
			return None
		return res

	def run_sub(self, st, fn, args):
		"""runs a MIR function to completion from inside a model: [(state, result)] (the frames of
		`st` below the call stay in place, so references into them remain valid)"""
		st.frames.append(Frame(None, {}))
		st.frames.append(Frame(fn, {p: a for p, a in zip(fn.params, args)}, 0, 0, Place(0, []), 0))
		out = []
		for fin in self.run(st):
			res = fin.result
			fin.result = None
			fin.aux.pop("root", None)
			out.append((fin, res))
		return out

	def fn_value_call(self, f, args):
		"""a CallFn for a closure / function-item value if its MIR is available, else None"""
		if isinstance(f, Agg) and str(f.ty).startswith("{closure@"):
			fn = self.resolve_fn("@closure", f.ty, args)
			return CallFn(fn, [f] + list(args)) if fn is not None else None
		if isinstance(f, Closure):
			fn = self.resolve_fn("@closure", f, args)
			return CallFn(fn, [f] + list(args)) if fn is not None else None
		if isinstance(f, FnItem):
			fn = self.resolve_fn(str(f), str(f), args)
			return CallFn(fn, list(args)) if fn is not None else None
		return None

	def call_function_value(self, st, f, args):
		"""applies a function item / closure value (used by the Meta::map model);
		only constructors and closures whose MIR is a single block are supported"""
		if isinstance(f, Closure):
			fn = self.resolve_fn("@closure", f, args)
			if fn is None:
				raise MirError("closure MIR not found: " + f)
			return self.eval_simple(st, fn, [f] + list(args))
		if isinstance(f, FnItem):
			fn = self.resolve_fn(str(f), str(f), args)
			if fn is not None:
				return self.eval_simple(st, fn, list(args))
			return self.make_agg(str(f), list(args))
		raise MirError("not callable: %r" % (f,))

	def eval_simple(self, st, fn, args):
		"""runs a straight-line MIR function (single path) in a scratch frame"""
		loc = {}
		for p, a in zip(fn.params, args):
			loc[p] = a
		st.frames.append(Frame(fn, loc, 0, 0, None, None))
		depth = len(st.frames)
		fi = depth - 1
		fr = st.frames[fi]
		guard = 0
		while True:
			guard += 1
			if guard > 200:
				raise MirError("eval_simple: too long")
			s = fr.fn.blocks[fr.bb][fr.ip].rstrip(";")
			fr.ip += 1
			if s == "return":
				v = fr.locals.get(0)
				st.frames.pop()
				return v
			r = self.exec_stmt(st, fi, fr, s)
			if r is not None or len(st.frames) != depth:
				raise MirError("eval_simple: function is not straight-line: " + fn.header[:60])
