#!/usr/bin/env python3
"""
objcheck.py — C06 at the level of the `Object` methods, by symbolic execution of
their MIR (same interpreter as the driver check, mirx.py).

The MIR of `Object::{push, push_entry, push_front, push_entry_front, remove_at,
insert, insert_front, remove, remove_unique, sort, index_of, redundant_index_of}`
and of the removal iterators (`next`, their closures and their `Drop`) is taken
from the compiler's dump of the CURRENT tree. Their callees are models:

  * `Vec<Entry>`: len / push / insert / remove / index / index_mut / first_mut /
    sort_by (by (key, value), std trusted), `mem::swap`, `mem::replace`, `Range`;
  * `IndexMap` (src/object/index_map.rs): the bucket semantics of insert / remove /
    shift_up / shift_down / clear / get as the Kani harnesses I1/I2 establish them
    for the real code (representative = first position, other positions sorted,
    lookup through entries[rep].key) — defined for EVERY state, also stale ones,
    so that a wrapper that uses them in the wrong order is seen;
  * `Iterator::last` on the removal iterators (what their `Drop` runs): a loop of `next`.

KEYS ARE SYMBOLIC: every key is a z3 integer variable ranging over an unbounded
universe; whether two keys are equal (or how they compare, for `sort`) is decided
lazily, when the code or the list model first asks, by z3 — each branch stands for
all keys satisfying the decisions taken so far. Operation kinds, positions and the
number of items pulled from a removal iterator before it is dropped are enumerated
per history (they are the harness shape, like the instances of the Kani harnesses).

After EVERY operation of every history of <= L operations from the empty object:
  entries == the list model's entries (keys by variable identity, values by tag);
  the index is canonical: one bucket per key class present, holding exactly the
  positions of that class in ascending order; no bucket refers past the end;
  the operation's result (fresh-key flag, removed entries and their order,
  Duplicate error) is the list model's.
"""
import argparse
import itertools
import json
import os
import re
import sys
import time

HERE = os.path.dirname(os.path.realpath(__file__))
sys.path.insert(0, HERE)

import z3  # noqa: E402

import mirx  # noqa: E402
from mirx import Agg, CallFn, Frame, MirError, NONE, Ref, State, UNIT, err, ok, some  # noqa: E402
import drvcheck  # noqa: E402


def log(*a):
	print(*a, file=sys.stderr, flush=True)


# ---------------------------------------------------------------------------
# symbolic keys


class Keys:
	"""z3 integer variables k0, k1, ...: each key is ONE symbolic character (a Unicode scalar
	value >= 'A'), so that the two orders the crate uses are both available and may disagree:
	  eq    same key
	  lts   `str` / code-point order        (Object::sort, derived Ord of Entry)
	  lt16  UTF-16 code-unit order          (canonical_cmp, RFC 8785)
	Relations are decided lazily by z3 and memoised."""

	def __init__(self):
		self.vars = []
		self.memo = {}
		self.queries = 0
		self.solver_time = 0.0

	def fresh(self):
		self.vars.append(z3.Int("k%d" % len(self.vars)))
		return len(self.vars) - 1

	def dom(self, v):
		return z3.And(v >= 0x41, v <= 0x10FFFF, z3.Or(v < 0xD800, v > 0xDFFF))

	def u16(self, v):
		# sort key of a one-character string under UTF-16 code-unit order: supplementary
		# characters (surrogate pairs, first unit D800..DBFF) sort between U+D7FF and U+E000
		return z3.If(v >= 0x10000, 0xD800 * 0x110000 + (v - 0x10000), v * 0x110000)

	def expr(self, rel):
		op, a, b = rel
		x, y = self.vars[a], self.vars[b]
		if op == "eq":
			return x == y
		if op == "lts":
			return x < y
		return self.u16(x) < self.u16(y)

	def solver_for(self, decisions):
		s = z3.Solver()
		used = set()
		for (op, a, b), t in decisions:
			used |= {a, b}
			e = self.expr((op, a, b))
			s.add(e if t else z3.Not(e))
		for i in used:
			s.add(self.dom(self.vars[i]))
		return s

	def sides(self, decisions, rel):
		key = (decisions, rel)
		r = self.memo.get(key)
		if r is not None:
			return r
		t0 = time.time()
		res = []
		for truth in (True, False):
			s = self.solver_for(decisions + ((rel, truth),))
			res.append(s.check() == z3.sat)
			self.queries += 1
		self.solver_time += time.time() - t0
		r = (res[0], res[1])
		self.memo[key] = r
		return r

	def split(self, st, op, a, b):
		"""[(state, truth)] of `k_a op k_b`"""
		if a == b:
			return [(st, op == "eq")]
		if op == "eq" and a > b:
			a, b = b, a
		rel = (op, a, b)
		dec = st.aux.get("kpc", ())
		for d, t in dec:
			if d == rel:
				return [(st, t)]
		t, f = self.sides(dec, rel)
		if t and f:
			s2 = st.fork()
			st.aux["kpc"] = dec + ((rel, True),)
			s2.aux["kpc"] = dec + ((rel, False),)
			return [(st, True), (s2, False)]
		if t:
			return [(st, True)]
		return [(st, False)]

	def model(self, st):
		s = self.solver_for(st.aux.get("kpc", ()))
		for v in self.vars:
			s.add(self.dom(v))
		self.queries += 1
		if s.check() != z3.sat:
			return None
		m = s.model()
		return [m.eval(v, model_completion=True).as_long() for v in self.vars]


def key_of(v):
	if isinstance(v, tuple) and v and v[0] == "key":
		return v[1]
	raise MirError("expected a key, got %r" % (v,))


# ---------------------------------------------------------------------------
# models


class ObjModels:
	def __init__(self, keys):
		self.keys = keys
		self.VOL = z3.Function("vol", z3.IntSort(), z3.IntSort())

	# ---- helpers on locations
	def rd(self, ip, st, ref):
		if not isinstance(ref, Ref):
			raise MirError("expected a reference, got %r" % (ref,))
		return ip.read_loc(st, (ref[0], ref[1], ref[2]))

	def wr(self, ip, st, ref, v):
		ip.write_loc(st, (ref[0], ref[1], ref[2]), v)

	def field(self, v, k):
		if isinstance(v, tuple) and v and v[0] == "vec" and isinstance(k, tuple) and k[0] == "win":
			return ("vec", v[1][k[1] : k[1] + k[2]])
		if isinstance(v, tuple) and v and v[0] == "vec" and isinstance(k, int):
			if k >= len(v[1]):
				raise MirError("PANIC index %d out of bounds (len %d)" % (k, len(v[1])))
			return v[1][k]
		raise MirError("field %r of %r" % (k, v))

	def update(self, ip, v, path, val):
		if isinstance(v, tuple) and v and v[0] == "vec" and isinstance(path[0], int):
			items = list(v[1])
			items[path[0]] = ip.updated(items[path[0]], path[1:], val)
			return ("vec", tuple(items))
		raise MirError("write into %r" % (v,))

	def entries_of(self, ip, st, a):
		v = self.rd(ip, st, a) if isinstance(a, Ref) else a
		if not (isinstance(v, tuple) and v and v[0] == "vec"):
			raise MirError("expected entries, got %r" % (v,))
		return v[1]

	def key_eq(self, st, a, b):
		return self.keys.split(st, "eq", key_of(a), key_of(b))

	# ---- IndexMap bucket semantics (src/object/index_map.rs as established by I1/I2)
	def find(self, st, buckets, entries, key):
		"""[(state, bucket position or None)]"""
		out = []
		work = [(st, 0)]
		while work:
			s, j = work.pop()
			if j >= len(buckets):
				out.append((s, None))
				continue
			rep = buckets[j][0]
			if rep >= len(entries):
				raise MirError("PANIC stale index: a bucket's representative position %d is past the end (len %d)" % (rep, len(entries)))
			for s2, t in self.key_eq(s, entries[rep].fields[0], key):
				if t:
					out.append((s2, j))
				else:
					work.append((s2, j + 1))
		return out

	def im_insert(self, ip, st, args):
		entries = self.entries_of(ip, st, args[1])
		index = args[2]
		if index >= len(entries):
			raise MirError("PANIC index %d out of bounds (len %d) in IndexMap::insert" % (index, len(entries)))
		key = entries[index].fields[0]
		out = []
		im = self.rd(ip, st, args[0])
		for s, j in self.find(st, im[1], entries, key):
			b = list(self.rd(ip, s, args[0])[1])
			if j is None:
				for rep, _ in b:
					if rep >= len(entries):
						raise MirError("PANIC stale index on table growth")
				b.append((index, ()))
				self.wr(ip, s, args[0], ("imap", tuple(b)))
				out.append((s, True))
			else:
				rep, other = b[j]
				i = index
				if i != rep:
					if i < rep:
						i, rep = rep, i
					if i not in other:
						other = tuple(sorted(other + (i,)))
				b[j] = (rep, other)
				self.wr(ip, s, args[0], ("imap", tuple(b)))
				out.append((s, False))
		return out

	def im_remove(self, ip, st, args):
		entries = self.entries_of(ip, st, args[1])
		index = args[2]
		if index >= len(entries):
			raise MirError("PANIC index %d out of bounds (len %d) in IndexMap::remove" % (index, len(entries)))
		key = entries[index].fields[0]
		out = []
		im = self.rd(ip, st, args[0])
		for s, j in self.find(st, im[1], entries, key):
			b = list(self.rd(ip, s, args[0])[1])
			if j is not None:
				rep, other = b[j]
				if rep == index:
					if not other:
						del b[j]
					else:
						b[j] = (other[0], other[1:])
				else:
					b[j] = (rep, tuple(x for x in other if x != index))
				self.wr(ip, s, args[0], ("imap", tuple(b)))
			out.append((s, UNIT))
		return out

	def im_shift(self, up):
		def f(ip, st, args):
			i = args[1]
			im = self.rd(ip, st, args[0])
			if up:
				g = lambda x: x + 1 if x >= i else x
			else:
				g = lambda x: x - 1 if x > i else x
			self.wr(ip, st, args[0], ("imap", tuple((g(r), tuple(g(x) for x in o)) for r, o in im[1])))
			return [(st, UNIT)]

		return f

	def im_get(self, ip, st, args):
		entries = self.entries_of(ip, st, args[1])
		key = self.rd(ip, st, args[2])
		im = self.rd(ip, st, args[0])
		out = []
		for s, j in self.find(st, im[1], entries, key):
			out.append((s, NONE if j is None else some(("indexes",) + im[1][j])))
		return out

	# ---- table
	def table(self, prog):
		one = lambda f: (lambda ip, st, args: [(st, f(ip, st, args))])

		def vec_len(ip, st, a):
			return len(self.entries_of(ip, st, a[0]))

		def vec_push(ip, st, a):
			v = self.rd(ip, st, a[0])
			self.wr(ip, st, a[0], ("vec", v[1] + (a[1],)))
			return UNIT

		def vec_insert(ip, st, a):
			v = self.rd(ip, st, a[0])
			if a[1] > len(v[1]):
				raise MirError("PANIC Vec::insert index %d > len %d" % (a[1], len(v[1])))
			self.wr(ip, st, a[0], ("vec", v[1][: a[1]] + (a[2],) + v[1][a[1] :]))
			return UNIT

		def vec_remove(ip, st, a):
			v = self.rd(ip, st, a[0])
			if a[1] >= len(v[1]):
				raise MirError("PANIC Vec::remove index %d out of bounds (len %d)" % (a[1], len(v[1])))
			self.wr(ip, st, a[0], ("vec", v[1][: a[1]] + v[1][a[1] + 1 :]))
			return v[1][a[1]]

		def vec_index(ip, st, a):
			v = self.rd(ip, st, a[0])
			if a[1] >= len(v[1]):
				raise MirError("PANIC index %d out of bounds (len %d)" % (a[1], len(v[1])))
			return Ref(a[0][0], a[0][1], a[0][2] + (a[1],))

		def first_mut(ip, st, a):
			v = self.rd(ip, st, a[0])
			return some(Ref(a[0][0], a[0][1], a[0][2] + (0,))) if v[1] else NONE

		def mem_swap(ip, st, a):
			x, y = self.rd(ip, st, a[0]), self.rd(ip, st, a[1])
			self.wr(ip, st, a[0], y)
			self.wr(ip, st, a[1], x)
			return UNIT

		def mem_replace(ip, st, a):
			x = self.rd(ip, st, a[0])
			self.wr(ip, st, a[0], a[1])
			return x

		def opt_take(ip, st, a):
			x = self.rd(ip, st, a[0])
			self.wr(ip, st, a[0], NONE)
			return x

		def key_eq_model(ip, st, a):
			return [(s, t) for s, t in self.key_eq(st, self.rd(ip, st, a[0]), self.rd(ip, st, a[1]))]

		def opt_map(ip, st, a):
			if a[0].variant == "None":
				return [(st, NONE)]
			f = str(a[1])
			x = a[0].fields[0]
			if f.endswith("Indexes::first"):
				return [(st, some(x[1]))]
			if f.endswith("IntoIterator>::into_iter"):
				return [(st, some(Agg("ObjIndexes", None, ((x[1],) + tuple(x[2]), 0))))]
			c = ip.fn_value_call(a[1], [x])
			if c is not None:
				# the result of the closure must be wrapped in Some: run it to completion here
				return [(s2, some(r)) for s2, r in ip.run_sub(st, c.fn, c.args)]
			if isinstance(a[1], mirx.FnItem) and re.match(r"^(\w+::)*[A-Z]\w*::[A-Z]\w*$", str(a[1])):
				# an enum constructor passed as a function (FragmentRef::Value ...)
				return [(st, some(ip.make_agg(str(a[1]), [x])))]
			raise MirError("Option::map with %r" % (a[1],))

		def opt_and_then(ip, st, a):
			if a[0].variant == "None":
				return [(st, NONE)]
			x = a[0].fields[0]
			if str(a[1]).endswith("Indexes::redundant"):
				return [(st, some(x[2][0]) if x[2] else NONE)]
			c = ip.fn_value_call(a[1], [x])
			if c is None:
				raise MirError("Option::and_then with %r" % (a[1],))
			return [(st, c)]

		def range_next(ip, st, a):
			r = self.rd(ip, st, a[0])
			lo, hi = r.fields
			if lo < hi:
				self.wr(ip, st, a[0], Agg("Range", None, (lo + 1, hi)))
				return some(lo)
			return NONE

		def sort_by(ip, st, a):
			"""entries sorted by (key, value) — std's sort_by is trusted; the comparator is represented by
			the order relation it implements (Object::sort's closure: `str` order; canonical_cmp: UTF-16
			code-unit order — that canonical_cmp IS that order is the Kani harness c09_member_order_*);
			the order of two keys is decided lazily by the solver"""
			v = self.rd(ip, st, a[0])
			out = []
			cmp_name = str(a[1].ty if isinstance(a[1], Agg) else a[1])
			if cmp_name.endswith("canonical_cmp"):
				lt = "lt16"
			else:
				# a closure: which order it implements is read off its body (Object::sort's closure compares
				# the stripped entries = `str` order; a closure that calls canonical_cmp is the UTF-16 order)
				c = ip.fn_value_call(a[1], [None, None])
				body = " ".join(stmt for blk_ in (c.fn.blocks.values() if c is not None else []) for stmt in blk_)
				if "canonical_cmp" in body:
					lt = "lt16"
				elif re.search(r"as (Ord|PartialOrd)>::(cmp|partial_cmp)", body):
					lt = "lts"
				else:
					raise MirError("sort_by with a comparator that is not recognised: %r" % (a[1],))

			def ins(s, done, rest):
				# insertion sort with symbolic comparisons
				if not rest:
					out.append((s, tuple(done)))
					return
				x = rest[0]

				def place(s2, pos):
					if pos == 0:
						ins(s2, [x] + done, rest[1:])
						return
					y = done[pos - 1]
					ky, kx = key_of(y.fields[0]), key_of(x.fields[0])
					for s3, eq in self.keys.split(s2, "eq", ky, kx):
						if eq:
							# equal keys: by value (tags / booleans; containers: kept in place — the order
							# among members of equal keys with container values is not modelled)
							vy, vx = y.fields[1], x.fields[1]
							if isinstance(vy, Agg) or isinstance(vx, Agg):
								if isinstance(vy, Agg) and isinstance(vx, Agg) and vy.variant == "Boolean" and vx.variant == "Boolean":
									vy, vx = vy.fields[0], vx.fields[0]
								else:
									s3.aux["tie_unmodelled"] = True
									vy, vx = 0, 0
							if vy <= vx:
								ins(s3, done[:pos] + [x] + done[pos:], rest[1:])
							else:
								place(s3, pos - 1)
						else:
							for s4, less in self.keys.split(s3, lt, ky, kx):
								if less:
									ins(s4, done[:pos] + [x] + done[pos:], rest[1:])
								else:
									place(s4, pos - 1)

				place(s, len(done))

			ins(st, [], list(v[1]))
			res = []
			for s, items in out:
				self.wr(ip, s, a[0], ("vec", items))
				res.append((s, UNIT))
			return res

		def value_canon(ip, st, a):
			v = deref_val(ip, st, a[0])
			if isinstance(v, Agg) and v.ty == "Value":
				# real values (nested mode): the crate's MIR
				fn = prog.resolve("Value::@canonicalize_with", None, [])
				if fn is None:
					raise MirError("Value::canonicalize_with not found in the MIR dump")
				return [(st, CallFn(fn, [a[0], a[1]]))]
			return [(st, UNIT)]  # scalar tags of the flat check

		def iter_last(ip, st, a):
			fn = prog.synthetic_last(self.rd(ip, st, a[0]))
			return [(st, CallFn(fn, [a[0]]))]

		def iter_next(ip, st, a):
			fn = prog.next_of(self.rd(ip, st, a[0]))
			return [(st, CallFn(fn, [a[0]]))]

		def obj_iter_mut(ip, st, a):
			return Agg("IterMut", None, (Ref(a[0][0], a[0][1], a[0][2] + (0,)), 0))

		def iter_mut_next(ip, st, a):
			it = self.rd(ip, st, a[0])
			vec_ref, pos = it.fields
			v = self.rd(ip, st, vec_ref)
			if pos >= len(v[1]):
				return NONE
			self.wr(ip, st, a[0], Agg("IterMut", None, (vec_ref, pos + 1)))
			e = Ref(vec_ref[0], vec_ref[1], vec_ref[2] + (pos,))
			return some(Agg("tuple", None, (Ref(e[0], e[1], e[2] + (0,)), Ref(e[0], e[1], e[2] + (1,)))))

		def windows(ip, st, a):
			return Agg("Windows", None, (a[0], a[1], 0))

		def windows_all(ip, st, a):
			w = self.rd(ip, st, a[0]) if isinstance(a[0], Ref) else a[0]
			vec_ref, size, _ = w.fields
			n = len(self.rd(ip, st, vec_ref)[1])
			c = ip.fn_value_call(a[1], [None])
			if c is None:
				raise MirError("Windows::all with %r" % (a[1],))
			out = []
			work = [(st, 0)]
			while work:
				s, pos = work.pop()
				if pos + size > n:
					out.append((s, True))
					continue
				win = Ref(vec_ref[0], vec_ref[1], vec_ref[2] + (("win", pos, size),))
				for s2, r in ip.run_sub(s, c.fn, [c.args[0], win]):
					for s3, t in (ip.sym.split(s2, r) if not isinstance(r, bool) else [(s2, r)]):
						if t:
							work.append((s3, pos + 1))
						else:
							out.append((s3, False))
			return out

		def window_index(ip, st, a):
			w = a[0] if isinstance(a[0], Agg) else self.rd(ip, st, a[0])
			if isinstance(w, Agg) and w.ty == "Window":
				vec_ref, pos, size = w.fields
				if a[1] >= size:
					raise MirError("PANIC window index out of bounds")
				return Ref(vec_ref[0], vec_ref[1], vec_ref[2] + (pos + a[1],))
			return vec_index(ip, st, a)

		def key_cmp(op):
			def f(ip, st, a):
				x = self.rd(ip, st, a[0]) if isinstance(a[0], Ref) else a[0]
				y = self.rd(ip, st, a[1]) if isinstance(a[1], Ref) else a[1]
				while isinstance(x, Ref):
					x = self.rd(ip, st, x)
				while isinstance(y, Ref):
					y = self.rd(ip, st, y)
				kx, ky = key_of(x), key_of(y)
				out = []
				for s, eq in self.keys.split(st, "eq", kx, ky):
					if eq:
						out.append((s, op in ("le", "ge")))
						continue
					for s2, lt in self.keys.split(s, "lts", kx, ky):
						out.append((s2, lt if op in ("lt", "le") else not lt))
				return out

			return f

		extra = {}
		for t in ("<SmallString as PartialOrd>", "<str as PartialOrd>", "<&str as PartialOrd>", "core::str::<impl PartialOrd for str>", "std::cmp::impls::<impl PartialOrd<&str> for &str>",
		          "std::cmp::impls::<impl PartialOrd for &str>", "std::cmp::impls::<impl PartialOrd<&B> for &A>", "core::cmp::impls::<impl PartialOrd<&B> for &A>"):
			for op in ("lt", "le", "gt", "ge"):
				extra["%s::%s" % (t, op)] = key_cmp(op)

		def deref_val(ip, st, x):
			while isinstance(x, Ref):
				x = self.rd(ip, st, x)
			return x

		def vec_eq(ip, st, a):
			x, y = deref_val(ip, st, a[0])[1], deref_val(ip, st, a[1])[1]
			if len(x) != len(y):
				return [(st, False)]
			out = []
			work = [(st, 0)]
			while work:
				s, j = work.pop()
				if j >= len(x):
					out.append((s, True))
					continue
				if x[j].fields[1] != y[j].fields[1]:
					out.append((s, False))
					continue
				for s2, eq in self.key_eq(s, x[j].fields[0], y[j].fields[0]):
					if eq:
						work.append((s2, j + 1))
					else:
						out.append((s2, False))
			return out

		def vec_cmp(ip, st, a):
			x, y = deref_val(ip, st, a[0])[1], deref_val(ip, st, a[1])[1]
			O = lambda n: Agg("Ordering", n, ())
			out = []
			work = [(st, 0)]
			while work:
				s, j = work.pop()
				if j >= len(x) or j >= len(y):
					out.append((s, O("Equal" if len(x) == len(y) else ("Less" if len(x) < len(y) else "Greater"))))
					continue
				kx, ky = key_of(x[j].fields[0]), key_of(y[j].fields[0])
				for s2, eq in self.keys.split(s, "eq", kx, ky):
					if eq:
						vx, vy = x[j].fields[1], y[j].fields[1]
						if vx == vy:
							work.append((s2, j + 1))
						else:
							out.append((s2, O("Less" if vx < vy else "Greater")))
						continue
					for s3, lt in self.keys.split(s2, "lts", kx, ky):
						out.append((s3, O("Less" if lt else "Greater")))
			return out

		def vec_hash(ip, st, a):
			x = deref_val(ip, st, a[0])[1]
			h = self.rd(ip, st, a[1])
			self.wr(ip, st, a[1], ("hasher", h[1] + (("len", len(x)),) + tuple((key_of(e.fields[0]), e.fields[1]) for e in x)))
			return UNIT

		def vec_capacity(ip, st, a):
			# the capacity of an allocation: an opaque value tied to WHERE the vector lives (two different
			# objects with the same entries need not have the same capacity; one object always has its own)
			b = a[0]
			while isinstance(self.rd(ip, st, b), Ref):
				b = self.rd(ip, st, b)
			return ("capacity", b[0], b[1], tuple(b[2]))

		def hasher_write(ip, st, a):
			h = self.rd(ip, st, a[0])
			self.wr(ip, st, a[0], ("hasher", h[1] + (("usize", a[1]),)))
			return UNIT

		def hash_slice(ip, st, a):
			x = deref_val(ip, st, a[0])[1]
			h = self.rd(ip, st, a[1])
			self.wr(ip, st, a[1], ("hasher", h[1] + tuple((key_of(e.fields[0]), e.fields[1]) for e in x)))
			return UNIT

		def slice_iter(ip, st, a):
			return Agg("SliceIter", None, (a[0], 0))

		def slice_iter_next(ip, st, a):
			it = self.rd(ip, st, a[0])
			ref, pos = it.fields
			v = deref_val(ip, st, ref)
			if pos >= len(v[1]):
				return NONE
			self.wr(ip, st, a[0], Agg("SliceIter", None, (ref, pos + 1)))
			base_ref = ref
			while isinstance(self.rd(ip, st, base_ref), Ref):
				base_ref = self.rd(ip, st, base_ref)
			return some(Ref(base_ref[0], base_ref[1], base_ref[2] + (pos,)))

		def bucket_positions(ip, st, obj_ref, key):
			"""[(state, positions)] of the entries the INDEX lists for `key` (bucket semantics)"""
			o = deref_val(ip, st, obj_ref)
			entries = o.fields[0][1]
			out = []
			for s, j in self.find(st, o.fields[1][1], entries, key):
				b = deref_val(ip, s, obj_ref).fields[1][1]
				out.append((s, [] if j is None else [b[j][0]] + list(b[j][1])))
			return out

		def base_ref(ip, st, r):
			while isinstance(self.rd(ip, st, r), Ref):
				r = self.rd(ip, st, r)
			return r

		def get_entries(with_index):
			def f(ip, st, a):
				key = deref_val(ip, st, a[1])
				ob = base_ref(ip, st, a[0]) if isinstance(self.rd(ip, st, a[0]), Ref) else a[0]
				out = []
				for s, ps in bucket_positions(ip, st, a[0], key):
					items = []
					for p in ps:
						r = Ref(ob[0], ob[1], ob[2] + (0, p))
						items.append(Agg("tuple", None, (p, r)) if with_index else r)
					out.append((s, Agg("EntriesIter", None, (tuple(items), 0))))
				return out

			return f

		def iter_any_all(is_all):
			def f(ip, st, a):
				it = self.rd(ip, st, a[0])
				if it.ty == "EntriesIter":
					items = list(it.fields[0][it.fields[1]:])
				elif it.ty == "SliceIter":
					ref, pos = it.fields
					v = deref_val(ip, st, ref)
					b = base_ref(ip, st, ref) if isinstance(self.rd(ip, st, ref), Ref) else ref
					items = [Ref(b[0], b[1], b[2] + (j,)) for j in range(pos, len(v[1]))]
				else:
					raise MirError("any/all on %r" % (it,))
				c = ip.fn_value_call(a[1], [None])
				if c is None:
					raise MirError("Iterator::any/all with %r" % (a[1],))
				# the closure is passed by value and called through &mut: keep it in a scratch local of the current frame
				fi = len(st.frames) - 1
				st.frames[fi].locals[900 + fi] = c.args[0]
				out = []
				work = [(st, 0)]
				while work:
					s, j = work.pop()
					if j >= len(items):
						out.append((s, is_all))
						continue
					for s2, r in ip.run_sub(s, c.fn, [Ref(fi, 900 + fi, ()), items[j]]):
						if not isinstance(r, bool):
							raise MirError("closure returned %r" % (r,))
						if r == is_all:
							work.append((s2, j + 1))
						else:
							out.append((s2, not is_all))
				return out

			return f

		def value_unordered_eq(ip, st, a):
			x, y = deref_val(ip, st, a[0]), deref_val(ip, st, a[1])
			if isinstance(x, Agg) and x.ty == "Value":
				# real values (nested mode): the crate's MIR
				fn = prog.resolve("Value::@unordered_eq", None, [])
				if fn is None:
					raise MirError("<Value as UnorderedPartialEq>::unordered_eq not found in the MIR dump")
				return [(st, CallFn(fn, [a[0], a[1]]))]
			return [(st, x == y)]  # values are scalar tags in the flat check

		def vec_unordered_eq(ip, st, a):
			fn = prog.resolve("Vec::@unordered_eq", None, [])
			if fn is None:
				raise MirError("<Vec<T> as UnorderedPartialEq>::unordered_eq not found in the MIR dump")
			return [(st, CallFn(fn, [a[0], a[1]]))]

		def iter_any_mir(ip, st, a):
			"""`iter.any(p)` for one of the crate's own iterators (Values ...): std's contract — `next` until
			the predicate holds (true) or the iterator ends (false); `next` and the predicate are MIR"""
			it = self.rd(ip, st, a[0])
			fn = prog.resolve("<%s as Iterator>::next" % it.ty, None, [])
			c = ip.fn_value_call(a[1], [None])
			if fn is None or c is None:
				raise MirError("Iterator::any over %r with %r" % (it.ty, a[1]))
			fi = len(st.frames) - 1
			st.frames[fi].locals[900 + fi] = c.args[0]
			out = []
			work = [st]
			while work:
				s_ = work.pop()
				for s2, r in ip.run_sub(s_, fn, [a[0]]):
					if r.variant == "None":
						out.append((s2, False))
						continue
					for s3, t in ip.run_sub(s2, c.fn, [Ref(fi, 900 + fi, ()), r.fields[0]]):
						if t:
							out.append((s3, True))
						else:
							work.append(s3)
			return out

		def zip_model(ip, st, a):
			# the second argument is anything IntoIterator: a slice / Vec reference, or &Object (its entries)
			b = a[1]
			v = deref_val(ip, st, b)
			if isinstance(v, Agg) and v.ty == "Object":
				while isinstance(self.rd(ip, st, b), Ref):
					b = self.rd(ip, st, b)
				b = Ref(b[0], b[1], b[2] + (0,))
			elif isinstance(v, Agg) and v.ty == "SliceIter":
				return Agg("Zip", None, (a[0], v))
			return Agg("Zip", None, (a[0], slice_iter(ip, st, [b])))

		def zip_all(ip, st, a):
			"""`a.iter().zip(b).all(f)`: std's contract — the predicate on the pairs in order up to the
			shorter length, false at the first failure; the predicate is the crate's MIR"""
			z = self.rd(ip, st, a[0])
			ia, ib = z.fields

			def items(it):
				ref, pos = it.fields[0], it.fields[1]
				v = deref_val(ip, st, ref)
				b = ref
				while isinstance(self.rd(ip, st, b), Ref):
					b = self.rd(ip, st, b)
				return [Ref(b[0], b[1], b[2] + (j,)) for j in range(pos, len(v[1]))]

			pairs = list(zip(items(ia), items(ib)))
			c = ip.fn_value_call(a[1], [None])
			if c is None:
				raise MirError("Zip::all with %r" % (a[1],))
			fi = len(st.frames) - 1
			st.frames[fi].locals[900 + fi] = c.args[0]
			out = []
			work = [(st, 0)]
			while work:
				s_, j = work.pop()
				if j >= len(pairs):
					out.append((s_, True))
					continue
				for s2, r in ip.run_sub(s_, c.fn, [Ref(fi, 900 + fi, ()), Agg("tuple", None, pairs[j])]):
					if not isinstance(r, bool):
						raise MirError("closure returned %r" % (r,))
					if r:
						work.append((s2, j + 1))
					else:
						out.append((s2, False))
			return out

		def contains_dups(ip, st, a):
			return any(o for _, o in deref_val(ip, st, a[0])[1])

		def from_elem(ip, st, a):
			return ("vec", tuple(a[0] for _ in range(a[1])))

		def scratch(ip, st, v):
			"""stores a value in a fresh scratch local of the root frame and returns a reference to it"""
			k = 2000 + st.aux.get("scratch", 0)
			st.aux["scratch"] = st.aux.get("scratch", 0) + 1
			st.frames[0].locals[k] = v
			return Ref(0, k, ())

		def cm_get(ip, st, a):
			# code-map entry at a (possibly symbolic) index: its volume is VOL(index), an uninterpreted function
			return some(scratch(ip, st, Agg("CMEntry", None, (("span", a[1]), self.VOL(a[1] if not isinstance(a[1], int) else z3.IntVal(a[1]))))))

		def opt_unwrap(ip, st, a):
			if a[0].variant != "Some":
				raise MirError("PANIC unwrap on None")
			return a[0].fields[0]

		def obj_indexes_next(ip, st, a):
			it = self.rd(ip, st, a[0])
			ps, pos = it.fields
			if pos >= len(ps):
				return NONE
			self.wr(ip, st, a[0], Agg("ObjIndexes", None, (ps, pos + 1)))
			return some(ps[pos])

		def unwrap_or_default(ip, st, a):
			return a[0].fields[0] if a[0].variant == "Some" else Agg("ObjIndexes", None, ((), 0))

		def any_next(ip, st, ref):
			"""[(state, Option<item>)] — `next` of an iterator value held at `ref`: std's slice iterator
			and its `enumerate` adaptor are models (std's contract), the crate's IterMapped is its MIR"""
			it = self.rd(ip, st, ref)
			if it.ty == "SliceIter":
				s2 = st.fork()
				return [(s2, slice_iter_next(ip, s2, [ref]))]
			if it.ty == "Enumerate":
				out = []
				for s2, r in any_next(ip, st, Ref(ref[0], ref[1], ref[2] + (0,))):
					if r.variant == "None":
						out.append((s2, NONE))
						continue
					cur = self.rd(ip, s2, ref)
					self.wr(ip, s2, ref, Agg("Enumerate", None, (cur.fields[0], cur.fields[1] + 1)))
					out.append((s2, some(Agg("tuple", None, (cur.fields[1], r.fields[0])))))
				return out
			if it.ty == "IterMapped" and isinstance(it.fields[0], Agg) and it.fields[0].ty == "SliceIter":
				fn = prog.resolve("<array::IterMapped as Iterator>::next" if not it_is_object(ip, st, it) else "<IterMapped as Iterator>::next", None, [])
				if fn is None:
					raise MirError("IterMapped::next not found in the MIR dump")
				return list(ip.run_sub(st, fn, [ref]))
			raise MirError("next of %r" % (it.ty,))

		def it_is_object(ip, st, it):
			v = deref_val(ip, st, it.fields[0].fields[0])
			return bool(v[1]) and isinstance(v[1][0], Agg) and v[1][0].ty == "Entry"

		def map_collect(ip, st, a):
			"""`iter.map(f).collect::<Result<Vec<_>, _>>()`: std's contract — the items mapped in order, the
			first Err returned as soon as it is produced, else Ok of all the Ok payloads. The inner
			iterator's `next` (when the crate's) and the closure are the crate's MIR."""
			inner, clo = a[0].fields
			fi = len(st.frames) - 1
			st.frames[fi].locals[910 + fi] = inner
			c = ip.fn_value_call(clo, [None])
			if c is None:
				raise MirError("Map::collect with %r" % (clo,))
			st.frames[fi].locals[940 + fi] = c.args[0]
			out = []
			work = [(st, ())]
			while work:
				s, acc = work.pop()
				for s2, r in any_next(ip, s, Ref(fi, 910 + fi, ())):
					if r.variant == "None":
						out.append((s2, Agg("Result", "Ok", (("vec", acc),))))
						continue
					for s3, q in ip.run_sub(s2, c.fn, [Ref(fi, 940 + fi, ()), r.fields[0]]):
						if q.variant == "Err":
							out.append((s3, Agg("Result", "Err", (q.fields[0],))))
						else:
							work.append((s3, acc + (q.fields[0],)))
			return out

		def slice_next_back(ip, st, a):
			it = self.rd(ip, st, a[0])
			ref, lo = it.fields[0], it.fields[1]
			v = deref_val(ip, st, ref)
			hi = it.fields[2] if len(it.fields) > 2 else len(v[1])
			if hi <= lo:
				return NONE
			self.wr(ip, st, a[0], Agg("SliceIter", None, (ref, lo, hi - 1)))
			b = ref
			while isinstance(self.rd(ip, st, b), Ref):
				b = self.rd(ip, st, b)
			return some(Ref(b[0], b[1], b[2] + (hi - 1,)))

		def sv_pop(ip, st, a):
			v = self.rd(ip, st, a[0])
			if not v[1]:
				return NONE
			self.wr(ip, st, a[0], ("vec", tuple(v[1][:-1])))
			return some(v[1][-1])

		def sv_extend_rev(ip, st, a):
			"""`stack.extend(iter.rev())`: std's contract — the items of `next_back` until None, pushed in
			that order; `next_back` is the crate's MIR"""
			rev = a[1]
			if isinstance(rev, Agg) and rev.ty == "Rev" and rev.fields[0].ty == "SubFragments":
				inner, which = rev.fields[0], "<SubFragments as DoubleEndedIterator>::next_back"
			elif isinstance(rev, Agg) and rev.ty == "SubFragments":
				inner, which = rev, "<SubFragments as Iterator>::next"
			else:
				raise MirError("SmallVec::extend with %r" % (rev,))
			fi = len(st.frames) - 1
			st.frames[fi].locals[970 + fi] = inner
			fn = prog.resolve(which, None, [])
			if fn is None:
				raise MirError("%s not found in the MIR dump" % which)
			out = []
			work = [st]
			while work:
				s_ = work.pop()
				for s2, r in ip.run_sub(s_, fn, [Ref(fi, 970 + fi, ())]):
					if r.variant == "None":
						out.append((s2, UNIT))
					else:
						v = self.rd(ip, s2, a[0])
						self.wr(ip, s2, a[0], ("vec", tuple(v[1]) + (r.fields[0],)))
						work.append(s2)
			return out

		def opt_or_else(ip, st, a):
			if a[0].variant == "Some":
				return [(st, a[0])]
			c = ip.fn_value_call(a[1], [])
			if c is None:
				raise MirError("Option::or_else with %r" % (a[1],))
			return [(st, c)]

		def filter_count(ip, st, a):
			"""`iter.filter(p).count()`: std's contract — the number of items for which the predicate
			holds; the iterator's `next` and the predicate are the crate's MIR"""
			inner, clo = a[0].fields
			fi = len(st.frames) - 1
			st.frames[fi].locals[910 + fi] = inner
			c = ip.fn_value_call(clo, [None])
			fn = prog.resolve("<%s as Iterator>::next" % inner.ty, None, [])
			if c is None or fn is None:
				raise MirError("Filter::count over %r with %r" % (inner.ty, clo))
			st.frames[fi].locals[940 + fi] = c.args[0]
			out = []
			work = [(st, 0)]
			while work:
				s_, n = work.pop()
				for s2, r in ip.run_sub(s_, fn, [Ref(fi, 910 + fi, ())]):
					if r.variant == "None":
						out.append((s2, n))
						continue
					s2.frames[fi].locals[980 + fi] = r.fields[0]
					for s3, keep in ip.run_sub(s2, c.fn, [Ref(fi, 940 + fi, ()), Ref(fi, 980 + fi, ())]):
						work.append((s3, n + (1 if keep else 0)))
			return out

		def bmap_insert(ip, st, a):
			"""BTreeMap::insert — std's contract: the value of an equal key is replaced (the old value is
			returned), else the pair is added; keys are symbolic, their equality is decided by the solver"""
			m_ = self.rd(ip, st, a[0])
			items = list(m_[1])
			out = []

			def go(s_, j):
				if j >= len(items):
					self.wr(ip, s_, a[0], ("bmap", tuple(items) + ((a[1], a[2]),)))
					out.append((s_, NONE))
					return
				for s2, eq in self.key_eq(s_, items[j][0], a[1]):
					if eq:
						new = list(items)
						new[j] = (items[j][0], a[2])
						self.wr(ip, s2, a[0], ("bmap", tuple(new)))
						out.append((s2, some(items[j][1])))
					else:
						go(s2, j + 1)

			go(st, 0)
			return out

		def bmap_contains(ip, st, a):
			m_ = deref_val(ip, st, a[0])
			key = deref_val(ip, st, a[1])
			out = []

			def go(s_, j):
				if j >= len(m_[1]):
					out.append((s_, False))
					return
				for s2, eq in self.key_eq(s_, m_[1][j][0], key):
					if eq:
						out.append((s2, True))
					else:
						go(s2, j + 1)

			go(st, 0)
			return out

		def try_branch(ip, st, a):
			r = a[0]
			if r.variant == "Ok":
				return Agg("ControlFlow", "Continue", (r.fields[0],))
			return Agg("ControlFlow", "Break", (Agg("Result", "Err", (r.fields[0],)),))

		def map_err(ip, st, a):
			if a[0].variant == "Ok":
				return [(st, a[0])]
			c = ip.fn_value_call(a[1], [a[0].fields[0]])
			if c is None:
				raise MirError("Result::map_err with %r" % (a[1],))
			return [(s2, Agg("Result", "Err", (r,))) for s2, r in ip.run_sub(st, c.fn, c.args)]

		mk_map = one(lambda ip, st, a: Agg("MapIter", None, (a[0], a[1])))
		mk_enum = one(lambda ip, st, a: Agg("Enumerate", None, (a[0], 0)))

		base = {
			"<std::slice::Iter as DoubleEndedIterator>::next_back": one(slice_next_back),
			"<&[Value] as IntoIterator>::into_iter": one(slice_iter),
			"SmallVec::new": one(lambda ip, st, a: ("vec", ())),
			"SmallVec::push": one(vec_push),
			"SmallVec::pop": one(sv_pop),
			"<SmallVec as Extend>::extend": sv_extend_rev,
			"<SubFragments as IntoIterator>::into_iter": one(lambda ip, st, a: a[0]),
			"<SubFragments as Iterator>::rev": one(lambda ip, st, a: Agg("Rev", None, (a[0],))),
			"Option::or_else": opt_or_else,
			"<Traverse as Iterator>::filter": one(lambda ip, st, a: Agg("Filter", None, (a[0], a[1]))),
			"<Filter as Iterator>::count": filter_count,
			"BTreeMap::new": one(lambda ip, st, a: ("bmap", ())),
			"BTreeMap::insert": bmap_insert,
			"BTreeMap::contains_key": bmap_contains,
			"<object::IterMapped as IntoIterator>::into_iter": one(lambda ip, st, a: a[0]),
			"core::str::parse": one(lambda ip, st, a: Agg("Result", "Ok", (deref_val(ip, st, a[0]),))),
			"Result::map_err": map_err,
			"<Result as Try>::branch": one(try_branch),
			"<Result as FromResidual>::from_residual": one(lambda ip, st, a: Agg("Result", "Err", (a[0].fields[0],))),
			"<array::IterMapped as Iterator>::map": mk_map,
			"<std::slice::Iter as Iterator>::map": mk_map,
			"<Enumerate as Iterator>::map": mk_map,
			"<std::slice::Iter as Iterator>::enumerate": mk_enum,
			"<array::IterMapped as Iterator>::enumerate": mk_enum,
			"<Map as Iterator>::collect": map_collect,
			"<Mapped as Into>::into": one(lambda ip, st, a: a[0]),
			"<CodeMap as Deref>::deref": one(lambda ip, st, a: a[0]),
			"core::slice::get": one(cm_get),
			"Option::unwrap": one(opt_unwrap),
			"Option::unwrap_or_default": one(unwrap_or_default),
			"<object::Indexes as Iterator>::next": one(obj_indexes_next),
			"Object::get_entries": get_entries(False),
			"Object::get_entries_with_index": get_entries(True),
			"<Entries as Iterator>::any": iter_any_all(False),
			"<EntriesWithIndex as Iterator>::any": iter_any_all(False),
			"<std::slice::Iter as Iterator>::all": iter_any_all(True),
			"<std::slice::Iter as Iterator>::any": iter_any_all(False),
			"<Value as unordered::UnorderedPartialEq>::unordered_eq": value_unordered_eq,
			"<Value as UnorderedPartialEq>::unordered_eq": value_unordered_eq,
			"<T as unordered::UnorderedPartialEq>::unordered_eq": value_unordered_eq,
			"<T as UnorderedPartialEq>::unordered_eq": value_unordered_eq,
			"<Vec as unordered::UnorderedPartialEq>::unordered_eq": vec_unordered_eq,
			"<Vec as UnorderedPartialEq>::unordered_eq": vec_unordered_eq,
			"<Value as PartialEq>::eq": one(lambda ip, st, a: deref_val(ip, st, a[0]) == deref_val(ip, st, a[1])),
			"<&bool as PartialEq>::eq": one(lambda ip, st, a: deref_val(ip, st, a[0]) == deref_val(ip, st, a[1])),
			"<std::slice::Iter as Iterator>::zip": one(zip_model),
			"<object::Values as Iterator>::any": iter_any_mir,
			"<Values as Iterator>::any": iter_any_mir,
			"<object::ValuesWithIndex as Iterator>::any": iter_any_mir,
			"<Zip as Iterator>::all": zip_all,
			"IndexMap::contains_duplicate_keys": one(contains_dups),
			"std::vec::from_elem": one(from_elem),
			"alloc::vec::from_elem": one(from_elem),
			"Vec::new": one(lambda ip, st, a: ("vec", ())),
			"<&Vec as IntoIterator>::into_iter": one(slice_iter),
			"core::slice::iter": one(slice_iter),
			"std::slice::iter": one(slice_iter),
			"<std::slice::Iter as IntoIterator>::into_iter": one(lambda ip, st, a: a[0]),
			"<std::slice::Iter as Iterator>::next": one(slice_iter_next),
			"<core::slice::Iter as Iterator>::next": one(slice_iter_next),
			"<object::Entry as Clone>::clone": one(lambda ip, st, a: deref_val(ip, st, a[0])),
			"<SmallString as Clone>::clone": one(lambda ip, st, a: deref_val(ip, st, a[0])),
			"<Value as Clone>::clone": one(lambda ip, st, a: deref_val(ip, st, a[0])),
			"<Vec as Clone>::clone": one(lambda ip, st, a: deref_val(ip, st, a[0])),
			"<IndexMap as Clone>::clone": one(lambda ip, st, a: deref_val(ip, st, a[0])),
			"<Vec as PartialEq>::eq": vec_eq,
			"<Vec as Ord>::cmp": vec_cmp,
			"<Vec as Hash>::hash": one(vec_hash),
			"Vec::capacity": one(vec_capacity),
			"<H as Hasher>::write_usize": one(hasher_write),
			"<H as Hasher>::write_length_prefix": one(hasher_write),
			"<object::Entry as Hash>::hash_slice": one(hash_slice),
			"Option::Some": one(lambda ip, st, a: some(a[0])),
			"Object::iter_mut": one(obj_iter_mut),
			"<object::IterMut as IntoIterator>::into_iter": one(lambda ip, st, a: a[0]),
			"<object::IterMut as Iterator>::next": one(iter_mut_next),
			"Value::canonicalize_with": value_canon,
			"<&mut Vec as IntoIterator>::into_iter": one(slice_iter),
			"<std::slice::IterMut as Iterator>::next": one(slice_iter_next),
			"<core::slice::IterMut as Iterator>::next": one(slice_iter_next),
			"ryu_js::Buffer::new": one(lambda ip, st, a: ("buffer",)),
			"core::slice::windows": one(windows),
			"std::slice::windows": one(windows),
			"<std::slice::Windows as Iterator>::all": windows_all,
			"<core::slice::Windows as Iterator>::all": windows_all,
			"<Windows as Iterator>::all": windows_all,
			"<[object::Entry] as Index>::index": one(window_index),
			"SmallString::as_str": one(lambda ip, st, a: a[0]),
			"<SmallString as Deref>::deref": one(lambda ip, st, a: a[0]),
		}
		base.update(extra)
		base.update({
			"@field": self.field,
			"@update": self.update,
			"@len": lambda ip, st, a: len(self.rd(ip, st, a)[1]),
			"Vec::len": one(vec_len),
			"Vec::push": one(vec_push),
			"Vec::insert": one(vec_insert),
			"Vec::remove": one(vec_remove),
			"<Vec as Deref>::deref": one(lambda ip, st, a: a[0]),
			"<Vec as DerefMut>::deref_mut": one(lambda ip, st, a: a[0]),
			"<Vec as Index>::index": one(vec_index),
			"<Vec as IndexMut>::index_mut": one(vec_index),
			"core::slice::first_mut": one(first_mut),
			"std::slice::sort_by": sort_by,
			"std::mem::swap": one(mem_swap),
			"std::mem::replace": one(mem_replace),
			"Option::take": one(opt_take),
			"Option::map": opt_map,
			"Option::and_then": opt_and_then,
			"object::Entry::new": one(lambda ip, st, a: Agg("Entry", None, (a[0], a[1]))),
			"<SmallString as PartialEq>::eq": key_eq_model,
			"IndexMap::new": one(lambda ip, st, a: ("imap", ())),
			"IndexMap::insert": self.im_insert,
			"IndexMap::remove": self.im_remove,
			"IndexMap::shift_up": self.im_shift(True),
			"IndexMap::shift_down": self.im_shift(False),
			"IndexMap::clear": one(lambda ip, st, a: (self.wr(ip, st, a[0], ("imap", ())), UNIT)[1]),
			"IndexMap::get": self.im_get,
			"<std::ops::Range as IntoIterator>::into_iter": one(lambda ip, st, a: a[0]),
			"<std::ops::Range as Iterator>::next": one(range_next),
			"<&mut RemovedByInsertion as Iterator>::last": iter_last,
			"<&mut RemovedByInsertFront as Iterator>::last": iter_last,
			"<&mut RemovedEntries as Iterator>::last": iter_last,
			"<RemovedEntries as Iterator>::next": iter_next,
		})
		return base


LAST_TEMPLATE = """fn synthetic_last(_1: &mut I) -> Option<T> {
    bb0: {
        _0 = Option::None;
        goto -> bb1;
    }
    bb1: {
        _2 = @next(copy _1) -> [return: bb2, unwind continue];
    }
    bb2: {
        _3 = discriminant(_2);
        switchInt(move _3) -> [0: bb4, 1: bb3, otherwise: bb5];
    }
    bb3: {
        _0 = move _2;
        goto -> bb1;
    }
    bb4: {
        return;
    }
    bb5: {
        unreachable;
    }
}
"""


class ObjProgram:
	NAMES = ["push", "push_entry", "push_front", "push_entry_front", "remove_at", "insert", "insert_front", "remove", "remove_unique", "sort",
	         "index_of", "redundant_index_of", "from_vec", "canonicalize_with"]

	def __init__(self, fns):
		self.fns = fns
		self.by = {}
		self.iters = {}  # iterator type -> {next, drop}
		self.closures = []
		for f in fns:
			h = f.header
			if "src/object/mod.rs" not in h:
				if "{closure#" in h:
					self.closures.append(f)
				continue
			m = re.match(r"^object::<impl at src/object/mod\.rs:[0-9: ]+>::(\w+)\(_1: (&mut |&)?(Object|Vec<object::Entry)", h)
			if m and m.group(1) in self.NAMES:
				self.by[m.group(1)] = f
				continue
			m = re.match(r"^object::<impl at [^>]*>::(next|drop)\(_1: &mut (RemovedByInsertion|RemovedByInsertFront|RemovedEntries)<", h)
			if m:
				self.iters.setdefault(m.group(2), {})[m.group(1)] = f
				continue
			m = re.match(r"^object::<impl at src/object/mod\.rs:[0-9: ]+>::(clone|eq|cmp|partial_cmp|hash|unordered_eq)\(_1: &Object", h)
			if m:
				self.by["@" + m.group(1)] = f
				continue
			if "{closure#" in h:
				self.closures.append(f)
		self.last = mirx.parse_mir(LAST_TEMPLATE)[0]
		need = ["push", "push_entry", "push_front", "push_entry_front", "remove_at", "insert", "insert_front", "remove", "remove_unique", "sort", "index_of", "redundant_index_of"]
		for k in need:
			if k not in self.by:
				raise MirError("Object::%s not found in the MIR dump" % k)
		for t in ("RemovedByInsertion", "RemovedByInsertFront", "RemovedEntries"):
			if set(self.iters.get(t, {})) != {"next", "drop"}:
				raise MirError("iterator %s: next/drop not found in the MIR dump" % t)

	def next_of(self, v):
		if isinstance(v, Agg) and v.ty in self.iters:
			return self.iters[v.ty]["next"]
		raise MirError("next() of %r" % (v,))

	def synthetic_last(self, v):
		return self.last

	def resolve(self, callee, raw, args):
		m = re.match(r"^Object::(\w+)$", callee)
		if m and m.group(1) in self.by:
			return self.by[m.group(1)]
		if callee == "@closure":
			path, _, parent = str(raw).partition("@@")
			cands = [f for f in self.closures if path in f.header]
			if parent and len(cands) > 1:
				# macro-generated impls share source locations: the closure of a function is the
				# first matching closure that FOLLOWS it in the dump
				pos = {id(f): k for k, f in enumerate(self.fns)}
				after = [f for f in cands if pos.get(id(f), -1) > int(parent)]
				if after:
					return min(after, key=lambda f: pos[id(f)])
			return cands[0] if cands else None
		if callee == "@next":
			return None
		# crate-local helpers by (type, method): Entry::as_ref / into_mapped, Mapped::new
		m = re.match(r"^(?:object::Entry|Mapped)::(as_ref|into_mapped|new)$", callee)
		if m:
			ty = "object::Entry" if callee.startswith("object::Entry") else "Mapped"
			for f in self.fns:
				h = f.header
				if re.search(r"::%s\(" % m.group(1), h) and (("_1: &object::Entry<K, V>" in h or "_1: object::Entry<K, V>" in h) if ty == "object::Entry" else "-> Mapped<T>" in h):
					return f
		# the `next` of the mapped iterators (dispatch on the receiver's type)
		m = re.match(r"^<(MappedEntries|MappedEntriesWithIndex|MappedValues|MappedValuesWithIndex) as Iterator>::next$", callee)
		if m:
			for f in self.fns:
				if re.search(r"::next\(_1: &mut %s<" % m.group(1), f.header):
					return f
		# array.rs / try_from.rs / lib.rs helpers used by the conversions (C11)
		pats = {
			"<Vec as JsonArray>::iter_mapped": r"^array::<impl at src/array\.rs:[0-9: ]+>::iter_mapped\(_1: &Vec<Value>",
			"<[Value] as JsonArray>::iter_mapped": r"^array::<impl at src/array\.rs:[0-9: ]+>::iter_mapped\(_1: &\[Value\]",
			"<array::IterMapped as Iterator>::next": r"^array::<impl at src/array\.rs:[0-9: ]+>::next\(_1: &mut array::IterMapped<",
			"<object::IterMapped as Iterator>::next": r"^object::<impl at src/object/mod\.rs:[0-9: ]+>::next\(_1: &mut object::IterMapped<",
			"<IterMapped as Iterator>::next": r"^object::<impl at src/object/mod\.rs:[0-9: ]+>::next\(_1: &mut (object::)?IterMapped<",
			"Value::kind": r"^<impl at src/lib\.rs:[0-9: ]+>::kind\(_1: &Value\) -> Kind",
			"Value::@unordered_eq": r"^<impl at src/lib\.rs:[0-9: ]+>::unordered_eq\(_1: &Value, _2: &Value\)",
			"Value::@canonicalize_with": r"^<impl at src/lib\.rs:[0-9: ]+>::canonicalize_with\(_1: &mut Value, _2: &mut ryu_js::Buffer\)",
			"Vec::@unordered_eq": r"^unordered::<impl at src/unordered\.rs:[0-9: ]+>::unordered_eq\(_1: &Vec<T>, _2: &Vec<T>\)",
			"<Object as unordered::UnorderedPartialEq>::unordered_eq": r"^object::<impl at src/object/mod\.rs:[0-9: ]+>::unordered_eq\(_1: &Object, _2: &Object\)",
			"Value::get_fragment": r"^<impl at src/lib\.rs:[0-9: ]+>::get_fragment\(_1: &Value, _2: usize\)",
			"Value::traverse": r"^<impl at src/lib\.rs:[0-9: ]+>::traverse\(_1: &Value\)",
			"Value::volume": r"^<impl at src/lib\.rs:[0-9: ]+>::volume\(_1: &Value\)",
			"get_array_fragment": r"^get_array_fragment\(_1: &\[Value\], _2: usize\)",
			"object::Entry::get_fragment": r"^object::<impl at src/object/mod\.rs:[0-9: ]+>::get_fragment\(_1: &object::Entry<",
			"FragmentRef::sub_fragments": r"^<impl at src/lib\.rs:[0-9: ]+>::sub_fragments\(_1: &FragmentRef<",
			"FragmentRef::is_value": r"^<impl at src/lib\.rs:[0-9: ]+>::is_value\(_1: &FragmentRef<",
			"<SubFragments as DoubleEndedIterator>::next_back": r"^<impl at src/lib\.rs:[0-9: ]+>::next_back\(_1: &mut SubFragments<",
			"<Traverse as Iterator>::next": r"^<impl at src/lib\.rs:[0-9: ]+>::next\(_1: &mut Traverse<",
			"<SubFragments as Iterator>::next": r"^<impl at src/lib\.rs:[0-9: ]+>::next\(_1: &mut SubFragments<",
		}
		if callee in pats:
			for f in self.fns:
				if re.search(pats[callee], f.header):
					return f
		# `next` of the crate's other object iterators (Values, ValuesWithIndex, ...)
		m = re.match(r"^<(?:object::)?(\w+) as Iterator>::next$", callee)
		if m and m.group(1) not in ("IterMut", "Indexes"):
			for f in self.fns:
				if "src/object/mod.rs" in f.header and re.search(r"::next\(_1: &mut (object::)?%s<" % m.group(1), f.header):
					return f
		# any other method of Object / Default for Object whose MIR is in the dump
		m = re.match(r"^(?:<Object as \w+>|Object)::(\w+)$", callee)
		if m and m.group(1) not in ("iter_mut", "get_entries", "get_entries_with_index"):
			for f in self.fns:
				if "src/object/mod.rs" in f.header and re.search(r"::%s\((_1: (&mut |&)?Object\b|\) -> Object)" % re.escape(m.group(1)), f.header):
					return f
		return None

	def encoded(self):
		out = ["Object::%s (%d basic blocks)" % (k, len(f.blocks)) for k, f in sorted(self.by.items())]
		for t, d in sorted(self.iters.items()):
			out += ["<%s as Iterator>::next" % t, "<%s as Drop>::drop" % t]
		return out


def enum_variants(repo, fname, name):
	t = open(os.path.join(repo, fname)).read()
	t = re.sub(r"//[^\n]*", "", t)
	m = re.search(r"\benum\s+%s\s*(?:<[^>{]*>)?\s*\{" % name, t)
	if not m:
		raise MirError("enum %s not found in %s" % (name, fname))
	k = mirx.match_close(t, m.end() - 1)
	out = []
	for p_ in mirx.split_top(t[m.end():k]):
		p_ = re.sub(r"#\[[^\]]*\]", "", p_).strip()
		mm = re.match(r"(\w+)", p_)
		if mm:
			out.append(mm.group(1))
	return out


def struct_fields(repo, fname=os.path.join("src", "object", "mod.rs")):
	t = open(os.path.join(repo, fname)).read()
	t = re.sub(r"//[^\n]*", "", t)
	out = {}
	for m in re.finditer(r"\bstruct\s+(\w+)\s*(<[^>{]*>)?\s*\{", t):
		k = mirx.match_close(t, m.end() - 1)
		names = []
		for p in mirx.split_top(t[m.end():k]):
			p = re.sub(r"#\[[^\]]*\]", "", p).strip()
			mm = re.match(r"(?:pub(?:\([^)]*\))?\s+)?(\w+)\s*:", p)
			if mm:
				names.append(mm.group(1))
		out[m.group(1)] = names
	return out


# ---------------------------------------------------------------------------
# the list model and the exploration of histories

ITER_LOOKUPS = ("get_mapped_entries", "get_mapped", "get_mapped_entries_with_index", "get_mapped_with_index")
UNIQUE_LOOKUPS = ("get_unique_mapped_entry", "get_unique_mapped", "get_unique_mapped_entry_with_index", "get_unique_mapped_with_index")
OPS = ["push", "push_front", "remove_at", "insert", "insert_front", "remove", "remove_unique", "sort", "canon"]


class Explorer:
	def __init__(self, repo, mir_text):
		self.prog = ObjProgram(mirx.parse_mir(mir_text))
		self.repo = repo
		self.timed_out = False
		self.keys = Keys()
		self.models = ObjModels(self.keys)
		table = self.models.table(self.prog)
		sym = mirx.Symbolic(0)

		def resolve(callee, raw, args):
			if callee == "@next":
				return None
			return self.prog.resolve(callee, raw, args)

		self.ip = mirx.Interp(self.prog.fns, {"Duplicate": ["Duplicate"]}, sym, table, resolve, max_steps=200000)
		# `@next` inside synthetic_last: dispatch on the iterator type
		table["@next"] = lambda ip, st, a: [(st, CallFn(self.prog.next_of(self.models.rd(ip, st, a[0])), [a[0]]))]
		# `drop(place)` of a removal iterator inside the crate's own code (remove_unique): its Drop impl
		table["@drop"] = lambda ip, st, v: self.prog.iters[v.ty]["drop"] if isinstance(v, Agg) and v.ty in self.prog.iters else None
		self.ip.struct_fields = struct_fields(repo)
		if self.ip.struct_fields.get("Object", [None])[0] != "entries":
			raise MirError("struct Object: expected `entries` as the first field")
		self.paths = 0
		self.ops_run = 0
		self.violations = []
		self.samples = []
		self.sample_every = 25
		self.with_content = True
		self.pair_law_depth = 3
		self.content_depth = 4  # Eq/Ord/Hash/Clone checks on the objects reached by <= 4 operations

	# ---- running one MIR function to completion on a state whose root frame holds the object
	def call(self, st, fn, args):
		"""[(state, result)]"""
		st.frames.append(Frame(fn, {p: a for p, a in zip(fn.params, args)}, 0, 0, mirx.Place(99, []), 0))
		out = []
		for fin in self.ip.run(st):
			root = fin.aux.pop("root")
			res = fin.result
			fin.result = None
			fin.frames = [Frame(None, root)]
			fin.steps = 0
			out.append((fin, res))
		return out

	def obj(self, st):
		return st.frames[0].locals[1]

	# ---- list model helpers (keys compared through the solver, consistently with the implementation)
	def positions(self, st, model, key):
		"""[(state, [positions of entries whose key equals `key`])]"""
		out = []
		work = [(st, 0, [])]
		while work:
			s, j, acc = work.pop()
			if j >= len(model):
				out.append((s, acc))
				continue
			for s2, t in self.keys.split(s, "eq", model[j][0], key):
				work.append((s2, j + 1, acc + [j] if t else acc))
		return out

	def check_state(self, st, model, what):
		o = self.obj(st)
		entries = o.fields[0][1]
		got = [(key_of(e.fields[0]), e.fields[1]) for e in entries]
		if got != list(model):
			return "%s: entries %r, list model %r" % (what, got, model)
		buckets = o.fields[1][1]
		seen = set()
		# one bucket per key class, holding exactly that class's positions in ascending order
		for rep, other in buckets:
			ps = (rep,) + tuple(other)
			if any(p >= len(model) for p in ps) or list(ps) != sorted(set(ps)) or seen & set(ps):
				return "%s: index bucket %r invalid for %d entries" % (what, ps, len(model))
			seen |= set(ps)
		if seen != set(range(len(model))):
			return "%s: index does not cover positions %r" % (what, sorted(set(range(len(model))) - seen))
		return None

	def check_buckets(self, st, model, what):
		"""every bucket holds exactly the positions of ONE key class (decided by the solver)"""
		o = self.obj(st)
		bad = []
		work = [(st, list(o.fields[1][1]))]
		out = []
		while work:
			s, bs = work.pop()
			if not bs:
				out.append(s)
				continue
			(rep, other), rest = bs[0], bs[1:]
			for s2, ps in self.positions(s, model, model[rep][0]):
				if ps != [rep] + list(other):
					bad.append((s2, "%s: bucket %r, positions of its key in the list %r" % (what, (rep,) + tuple(other), ps)))
				else:
					work.append((s2, rest))
		return out, bad

	def violation(self, st, history, label, detail):
		if history and history[-1][0] == "canon" and label.startswith("C06:object-equals"):
			label = "C06+C10:index-canonical-and-queryable-after-canonicalization"
		if sum(1 for v in self.violations if v["label"] == label) >= (8 if label.startswith("C14:") else 3):
			return
		self.violations.append(dict(label=label, detail=detail, history=history, keys=self.keys.model(st), key_decisions=[[list(d), t] for d, t in st.aux.get("kpc", ())]))

	def step(self, st, model, history, op, arg):
		"""applies one operation; returns [(state, model', history')]"""
		ip, prog = self.ip, self.prog
		self.ops_run += 1
		nxt = []
		tag = len(history)
		h2 = history + [[op, arg]]
		try:
			if op in ("push", "push_front", "insert", "insert_front"):
				k = self.keys.fresh() if False else st.aux["nk"]
				st.aux["nk"] = k + 1
				while len(self.keys.vars) <= k:
					self.keys.fresh()
				key, val = ("key", k), tag
				for s, res in self.call(st, prog.by[op], [Ref(0, 1, ()), key, val]):
					for s2, ps in self.positions(s, model, k):
						if op == "push":
							m2 = model + [(k, val)]
							want = not ps
							if res is not want:
								self.violation(s2, h2, "C06:push-reports-fresh-key", "returned %r, expected %r" % (res, want))
								continue
							nxt.append((s2, m2))
						elif op == "push_front":
							m2 = [(k, val)] + model
							want = not ps
							if res is not want:
								self.violation(s2, h2, "C06:push-front-reports-fresh-key", "returned %r, expected %r" % (res, want))
								continue
							nxt.append((s2, m2))
						elif op == "insert":
							if not ps:
								if res.variant != "None":
									self.violation(s2, h2, "C06:insert-returns-none-only-for-a-fresh-key", "returned %r" % (res,))
									continue
								nxt.append((s2, model + [(k, val)]))
								continue
							if res.variant != "Some":
								self.violation(s2, h2, "C06:insert-returns-removed-entries-for-a-present-key", "returned None")
								continue
							removed = [model[p] for p in ps]
							m2 = [e for j, e in enumerate(model) if j not in ps[1:]]
							m2[ps[0]] = (k, val)
							nxt += self.drain(s2, res.fields[0], removed, arg, m2, h2, "insert")
						else:
							if model and ps and ps[0] == 0:
								removed = [model[p] for p in ps]
								m2 = [(k, val)] + [e for j, e in enumerate(model) if j not in ps]
							else:
								# the documented behaviour: pushed to the front, duplicates removed
								removed = [model[p] for p in ps]
								m2 = [(k, val)] + [e for j, e in enumerate(model) if j not in ps]
							nxt += self.drain(s2, res, removed, arg, m2, h2, "insert_front")
			elif op == "remove_at":
				for s, res in self.call(st, prog.by[op], [Ref(0, 1, ()), arg]):
					if arg >= len(model):
						if res.variant != "None":
							self.violation(s, h2, "C06:remove-at-none-only-past-the-end", "returned %r" % (res,))
							continue
						nxt.append((s, model))
					else:
						e = model[arg]
						if res.variant != "Some" or (key_of(res.fields[0].fields[0]), res.fields[0].fields[1]) != e:
							self.violation(s, h2, "C06:remove-at-returns-the-entry", "returned %r, expected %r" % (res, e))
							continue
						nxt.append((s, model[:arg] + model[arg + 1 :]))
			elif op in ("remove", "remove_unique"):
				qk, consume = arg
				if qk >= st.aux["nk"]:
					st.aux["nk"] = qk + 1
					while len(self.keys.vars) <= qk:
						self.keys.fresh()
				st.frames[0].locals[2] = ("key", qk)
				for s, res in self.call(st, prog.by[op], [Ref(0, 1, ()), Ref(0, 2, ())]):
					for s2, ps in self.positions(s, model, qk):
						removed = [model[p] for p in ps]
						m2 = [e for j, e in enumerate(model) if j not in ps]
						if op == "remove":
							nxt += self.drain(s2, res, removed, consume, m2, h2, "remove")
						else:
							if not ps:
								good = res.variant == "Ok" and res.fields[0].variant == "None"
							elif len(ps) == 1:
								good = res.variant == "Ok" and res.fields[0].variant == "Some" and self.same_entry(res.fields[0].fields[0], removed[0])
							else:
								good = res.variant == "Err" and self.same_entry(res.fields[0].fields[0], removed[0]) and self.same_entry(res.fields[0].fields[1], removed[1])
							if not good:
								self.violation(s2, h2, "C06:remove-unique-result", "returned %r for %d matching entr(ies)" % (res, len(ps)))
								continue
							nxt.append((s2, m2))
			elif op == "sort":
				for s, res in self.call(st, prog.by[op], [Ref(0, 1, ())]):
					# the model's order: as the (modelled) sort_by left the entries, which must be
					# a sorted permutation of the model; the index must then be canonical for it
					got = [(key_of(e.fields[0]), e.fields[1]) for e in self.obj(s).fields[0][1]]
					if sorted(got, key=lambda e: (e[1],)) != sorted(model, key=lambda e: (e[1],)):
						self.violation(s, h2, "C06:sort-keeps-the-entries", "entries %r, list model %r" % (got, model))
						continue
					for s2, bad in self.sorted_by(s, got, "lts"):
						if bad:
							self.violation(s2, h2, "C06:sort-orders-entries-by-key-then-value", "after sort: %r" % (got,))
						else:
							nxt.append((s2, got))
			elif op == "canon":
				st.frames[0].locals[4] = ("buffer",)
				for s, res in self.call(st, prog.by["canonicalize_with"], [Ref(0, 1, ()), Ref(0, 4, ())]):
					got = [(key_of(e.fields[0]), e.fields[1]) for e in self.obj(s).fields[0][1]]
					if sorted(got, key=lambda e: (e[1],)) != sorted(model, key=lambda e: (e[1],)):
						self.violation(s, h2, "C10:canonicalization-keeps-the-entries", "entries %r, list model %r" % (got, model))
						continue
					# members must be in UTF-16 code-unit order of their keys (ties by value): decided by the solver
					for s2, bad in self.sorted_by(s, got, "lt16"):
						if bad:
							self.violation(s2, h2, "C09:members-sorted-by-utf16-code-units", "after canonicalization: %r" % (got,))
						else:
							nxt.append((s2, got))
			else:
				raise MirError("op " + op)
		except MirError as e:
			msg = str(e)
			if "PANIC" in msg:
				self.violation(st, h2, "C06:operation-panics-or-reads-a-stale-index", msg[:300])
				return []
			raise
		out = []
		for s, m2 in nxt:
			bad = self.check_state(s, m2, "after %s" % op)
			if bad:
				self.violation(s, h2, "C06:object-equals-list-model-and-index-canonical", bad)
				continue
			try:
				oks, bads = self.check_buckets(s, m2, "after %s" % op)
			except MirError as e:
				self.violation(s, h2, "C06:operation-panics-or-reads-a-stale-index", str(e)[:300])
				continue
			for s3, d in bads:
				self.violation(s3, h2, "C06:object-equals-list-model-and-index-canonical", d)
			for s3 in oks:
				out.append((s3, m2, h2))
		return out

	def sorted_by(self, st, entries, rel):
		"""[(state, bad)] — bad iff some adjacent pair is out of order under `rel` (ties by value)"""
		out = []
		work = [(st, 0)]
		while work:
			s, j = work.pop()
			if j + 1 >= len(entries):
				out.append((s, False))
				continue
			(ka, va), (kb, vb) = entries[j], entries[j + 1]
			for s2, eq in self.keys.split(s, "eq", ka, kb):
				if eq:
					if va <= vb:
						work.append((s2, j + 1))
					else:
						out.append((s2, True))
					continue
				for s3, lt in self.keys.split(s2, rel, ka, kb):
					if lt:
						work.append((s3, j + 1))
					else:
						out.append((s3, True))
		return out

	def same_entry(self, e, want):
		return isinstance(e, Agg) and e.ty == "Entry" and (key_of(e.fields[0]), e.fields[1]) == want

	def drain(self, st, it, removed, consume, m2, history, what):
		"""pulls `consume` items from a removal iterator, then drops it; returns [(state, model)]"""
		ip, prog = self.ip, self.prog
		st.frames[0].locals[3] = it
		ty = it.ty
		out = []
		work = [(st, 0)]
		while work:
			s, n = work.pop()
			if n < consume:
				for s2, res in self.call(s, prog.iters[ty]["next"], [Ref(0, 3, ())]):
					if n < len(removed):
						if res.variant != "Some" or not self.same_entry(res.fields[0], removed[n]):
							self.violation(s2, history, "C06:%s-yields-removed-entries-in-order" % what, "item %d: %r, expected %r" % (n, res, removed[n]))
							continue
					elif res.variant != "None":
						self.violation(s2, history, "C06:%s-yields-nothing-more" % what, "item %d: %r" % (n, res))
						continue
					work.append((s2, n + 1))
			else:
				for s2, _ in self.call(s, prog.iters[ty]["drop"], [Ref(0, 3, ())]):
					s2.frames[0].locals.pop(3, None)
					out.append((s2, m2))
		return out

	def content_checks(self, st, model, hist):
		"""C14: ==, cmp, partial_cmp, hash and clone depend on the entries only (an object rebuilt
		from the same entries by pushes is equal, compares Equal, hashes identically); the clone has
		the same entries and the same index; a strict prefix is a different, smaller object"""
		prog = self.prog
		if not all(k in prog.by for k in ("@clone", "@eq", "@cmp", "@partial_cmp", "@hash")):
			raise MirError("Object's Clone/PartialEq/Ord/Hash impls not found in the MIR dump")
		# the twin: a REAL object holding the same entries, rebuilt by interpreted pushes (so its index is
		# consistent but owes nothing to this object's history)
		st.frames[0].locals[5] = Agg("Object", None, (("vec", ()), ("imap", ())))
		cur = [st]
		for k_, v_ in model:
			nxt_ = []
			for s_ in cur:
				for s2_, _ in self.call(s_, prog.by["push"], [Ref(0, 5, ()), ("key", k_), v_]):
					nxt_.append(s2_)
			cur = nxt_

		def run(states, fn, args, want, label):
			nxt = []
			for s in states:
				for s2, res in self.call(s, fn, args):
					if not want(res, s2):
						self.violation(s2, hist, label, "returned %r" % (res,))
					else:
						nxt.append(s2)
			return nxt

		eqv = lambda r, s: r is True
		cur = run(cur, prog.by["@eq"], [Ref(0, 1, ()), Ref(0, 5, ())], eqv, "C14:object-eq-depends-on-the-entries-only")
		cur = run(cur, prog.by["@cmp"], [Ref(0, 1, ()), Ref(0, 5, ())], lambda r, s: isinstance(r, Agg) and r.variant == "Equal", "C14:object-cmp-depends-on-the-entries-only")
		cur = run(cur, prog.by["@partial_cmp"], [Ref(0, 1, ()), Ref(0, 5, ())], lambda r, s: isinstance(r, Agg) and r.variant == "Some" and r.fields[0].variant == "Equal", "C14:partial-cmp-is-some-cmp")
		out = []
		for s in cur:
			s.frames[0].locals[6] = ("hasher", ())
			s.frames[0].locals[7] = ("hasher", ())
			for s2, _ in self.call(s, prog.by["@hash"], [Ref(0, 1, ()), Ref(0, 6, ())]):
				for s3, _ in self.call(s2, prog.by["@hash"], [Ref(0, 5, ()), Ref(0, 7, ())]):
					if s3.frames[0].locals[6] != s3.frames[0].locals[7]:
						self.violation(s3, hist, "C14:object-hash-depends-on-the-entries-only", "%r vs %r" % (s3.frames[0].locals[6], s3.frames[0].locals[7]))
					else:
						out.append(s3)
		cur, out = out, []
		for s in cur:
			for s2, c in self.call(s, prog.by["@clone"], [Ref(0, 1, ())]):
				o2 = self.obj(s2)
				if not (isinstance(c, Agg) and c.ty == "Object" and c.fields[0] == o2.fields[0] and sorted(c.fields[1][1]) == sorted(o2.fields[1][1])):
					self.violation(s2, hist, "C14:clone-has-the-same-entries-and-a-working-index", "clone %r of %r" % (c, o2))
				else:
					out.append(s2)
		cur, out = out, []
		if model:
			for s in cur:
				o2 = self.obj(s)
				s.frames[0].locals[5] = Agg("Object", None, (("vec", o2.fields[0][1][:-1]), ("imap", ())))
				ok1 = run([s], prog.by["@eq"], [Ref(0, 1, ()), Ref(0, 5, ())], lambda r, s: r is False, "C14:object-eq-is-entry-list-equality")
				ok2 = run(ok1, prog.by["@cmp"], [Ref(0, 1, ()), Ref(0, 5, ())], lambda r, s: isinstance(r, Agg) and r.variant == "Greater", "C14:object-cmp-equal-exactly-when-eq")
				out += ok2
		else:
			out = cur
		# laws on pairs of REAL, different objects (built by interpreted pushes, so with a working
		# index): R = the entries in reverse order, T = the entries without the first one
		if len(model) >= 2 and len(hist) <= self.pair_law_depth:
			for s in out:
				# on a fork: the order decisions made while comparing are not carried into the exploration
				self.pair_laws(s.fork(), model, hist)
		for s in out:
			for k in (5, 6, 7, 10, 11):
				s.frames[0].locals.pop(k, None)
		return out

	def pair_laws(self, st, model, hist):
		"""[surviving states]. For X in {R, T}: eq(A, X) and eq(X, A) both equal `the entry lists are
		equal` (decided with the solver's key equalities); cmp(A, X) is Equal exactly then;
		cmp(X, A) is the reverse of cmp(A, X); partial_cmp is Some(cmp); equal objects hash alike."""
		prog = self.prog
		EMPTY = Agg("Object", None, (("vec", ()), ("imap", ())))
		ents = list(model)

		def build(s, slot, items):
			s.frames[0].locals[slot] = EMPTY
			states = [s]
			for k, v in items:
				nxt = []
				for s1 in states:
					for s2, _ in self.call(s1, prog.by["push"], [Ref(0, slot, ()), ("key", k), v]):
						nxt.append(s2)
				states = nxt
			return states

		def lists_equal(s, a, b):
			if len(a) != len(b):
				return [(s, False)]
			outs = [(s, True)]
			for (ka, va), (kb, vb) in zip(a, b):
				nxt = []
				for s1, ok_ in outs:
					if not ok_ or va != vb:
						nxt.append((s1, False))
						continue
					nxt += [(s2, eq) for s2, eq in self.keys.split(s1, "eq", ka, kb)]
				outs = nxt
			return outs

		REV = {"Less": "Greater", "Greater": "Less", "Equal": "Equal"}
		survivors = []
		for s0 in build(st, 10, list(reversed(ents))):
			for s1 in build(s0, 11, ents[1:]):
				alive = [s1]
				for slot, other, name in ((10, list(reversed(ents)), "reversed"), (11, ents[1:], "tail")):
					nxt = []
					for s2 in alive:
						for s3, same in lists_equal(s2, ents, other):
							calls = (("eq_ax", "@eq", (1, slot)), ("eq_xa", "@eq", (slot, 1)), ("cmp_ax", "@cmp", (1, slot)), ("cmp_xa", "@cmp", (slot, 1)), ("pcmp_ax", "@partial_cmp", (1, slot)))
							runs = [(s3, {})]
							for key, fn, args in calls:
								nruns = []
								for cs, cres in runs:
									# comparisons of keys whose order is still undecided fork: every branch is followed
									for s4, r in self.call(cs, prog.by[fn], [Ref(0, args[0], ()), Ref(0, args[1], ())]):
										nruns.append((s4, dict(cres, **{key: r})))
								runs = nruns
							for cur, res in runs:
								self.pair_verdict(cur, res, same, name, slot, hist, nxt)
					alive = nxt
				survivors += alive
		return survivors

	def pair_verdict(self, cur, res, same, name, slot, hist, nxt):
		prog = self.prog
		REV = {"Less": "Greater", "Greater": "Less", "Equal": "Equal"}
		bad = None
		if res["eq_ax"] is not same or res["eq_xa"] is not same:
			bad = ("C14:object-eq-is-entry-list-equality", "A vs its %s: eq gives %r / %r, the entry lists are %s" % (name, res["eq_ax"], res["eq_xa"], "equal" if same else "different"))
		elif (res["cmp_ax"].variant == "Equal") is not same:
			bad = ("C14:object-cmp-equal-exactly-when-eq", "A vs its %s: cmp gives %s, the entry lists are %s" % (name, res["cmp_ax"].variant, "equal" if same else "different"))
		elif res["cmp_xa"].variant != REV[res["cmp_ax"].variant]:
			bad = ("C14:object-cmp-is-antisymmetric", "A vs its %s: cmp(A, X) = %s but cmp(X, A) = %s" % (name, res["cmp_ax"].variant, res["cmp_xa"].variant))
		elif not (res["pcmp_ax"].variant == "Some" and res["pcmp_ax"].fields[0].variant == res["cmp_ax"].variant):
			bad = ("C14:partial-cmp-is-some-cmp", "A vs its %s: partial_cmp %r, cmp %s" % (name, res["pcmp_ax"], res["cmp_ax"].variant))
		elif same:
			cur.frames[0].locals[6] = ("hasher", ())
			cur.frames[0].locals[7] = ("hasher", ())
			(cur, _), = self.call(cur, prog.by["@hash"], [Ref(0, 1, ()), Ref(0, 6, ())])
			(cur, _), = self.call(cur, prog.by["@hash"], [Ref(0, slot, ()), Ref(0, 7, ())])
			if cur.frames[0].locals[6] != cur.frames[0].locals[7]:
				bad = ("C14:equal-objects-hash-alike", "A and its %s are equal but hash differently" % name)
		if bad:
			self.violation(cur, hist, bad[0], bad[1])
		else:
			nxt.append(cur)

	def explore_unordered(self, n_max, budget):
		"""C15: for every pair of objects of the same size <= n_max (keys symbolic, values over {0, 1}):
		unordered_eq(A, B) holds exactly when B's entries are a permutation of A's (multiset equality
		of (key, value) pairs, keys compared through the solver); both argument orders."""
		import itertools

		t0 = time.time()
		prog = self.prog
		if "@unordered_eq" not in prog.by:
			raise MirError("Object::unordered_eq not found in the MIR dump")
		self.pairs = 0
		sizes = [(n, n) for n in range(0, n_max + 1)] + [(n, m) for n in range(0, n_max + 1) for m in range(0, n_max + 1) if n != m]
		for n, m in sizes:
			for vals in itertools.product((0, 1), repeat=n + m):
				# build A (n entries) then B (m entries) by pushes (interpreted), from the empty object
				st = State()
				st.frames.append(Frame(None, {1: Agg("Object", None, (("vec", ()), ("imap", ())))}))
				st.aux["nk"] = 0
				states = [(st, [])]
				for j in range(n + m + 1):
					if j == n:
						for s, _ in states:
							s.frames[0].locals[8] = s.frames[0].locals[1]
							s.frames[0].locals[1] = Agg("Object", None, (("vec", ()), ("imap", ())))
						states = [(s, []) for s, _ in states]
					if j == n + m:
						break
					nxt = []
					for s, model in states:
						k = s.aux["nk"]
						s.aux["nk"] = k + 1
						while len(self.keys.vars) <= k:
							self.keys.fresh()
						for s2, res in self.call(s, prog.by["push"], [Ref(0, 1, ()), ("key", k), vals[j]]):
							nxt.append((s2, model + [(k, vals[j])]))
					states = nxt
				for s, modelB in states:
					A = [(key_of(e.fields[0]), e.fields[1]) for e in s.frames[0].locals[8].fields[0][1]]
					B = modelB
					for (x, y, tag) in ((8, 1, "A,B"), (1, 8, "B,A")):
						for s2, res in self.call(s.fork(), prog.by["@unordered_eq"], [Ref(0, x, ()), Ref(0, y, ())]):
							for s3, want in self.multiset_eq(s2, A, B):
								self.pairs += 1
								if res is not want:
									self.violation(s3, [["unordered_eq(%s)" % tag, [A, B]]], "C15:unordered-eq-iff-permutation-of-entries",
									               "returned %r for A=%r B=%r (key,value pairs by key variable), expected %r" % (res, A, B, want))
				if len(self.violations) >= 6 or (budget and time.time() - t0 > budget):
					return

	def explore_unordered_nested(self, level, budget):
		"""C15, nested values: `Value::unordered_eq`, `Vec<Value>::unordered_eq` (with its closure) and
		`Object::unordered_eq` from MIR, recursively, on pairs of values with nested arrays and objects.
		Every key of every object is a SYMBOLIC key (its own solver variable; which keys coincide is
		decided lazily, also inside the index while the objects are built by interpreted pushes);
		scalars are booleans. Oracle: the recursive definition — scalars equal, arrays of the same
		length and pointwise equivalent, objects multiset-equal under (key equal and values
		equivalent) — evaluated with the same lazily decided key equalities. Both argument orders."""
		t0 = time.time()
		prog = self.prog
		fn = prog.resolve("Value::@unordered_eq", None, [])
		if fn is None:
			raise MirError("<Value as UnorderedPartialEq>::unordered_eq not found in the MIR dump")
		self.ip.enums["Value"] = enum_variants(self.repo, "src/lib.rs", "Value")
		self.pairs = 0
		EMPTY = Agg("Object", None, (("vec", ()), ("imap", ())))

		build = self.nested_build
		ueq = self.nested_ueq

		for X, Y in nested_pairs(level):
			st = State()
			st.frames.append(Frame(None, {}))
			st.aux["nk"] = 0
			for s1, va, ma in build(st, X):
				for s2, vb, mb in build(s1, Y):
					s2.frames[0].locals[1] = va
					s2.frames[0].locals[8] = vb
					for (x, y, mx, my, tag) in ((1, 8, ma, mb, "A,B"), (8, 1, mb, ma, "B,A")):
						for s3, res in self.call(s2.fork(), fn, [Ref(0, x, ()), Ref(0, y, ())]):
							for s4, want in ueq(s3, mx, my):
								self.pairs += 1
								if res is not want:
									n0 = len(self.violations)
									self.violation(s4, [["unordered_eq_nested(%s)" % tag, [nested_text(X), nested_text(Y)]]], "C15:unordered-eq-iff-permutation-of-entries-at-any-depth",
									               "returned %r for A=%s B=%s, expected %r" % (res, nested_text(X), nested_text(Y), want))
									if len(self.violations) > n0:
										self.violations[-1]["shapes"] = [X, Y]
			if len(self.violations) >= 6:
				return
			if budget and time.time() - t0 > budget:
				self.timed_out = True
				return

	def nested_build(self, st, shape):
		"""[(state, Agg value, model)]; model: ("s", b) | ("arr", [models]) | ("obj", [(keyvar, model)])"""
		if shape in ("t", "f"):
			return [(st, Agg("Value", "Boolean", (shape == "t",)), ("s", shape))]
		if shape[0] == "arr":
			outs = [(st, [], [])]
			for c in shape[1]:
				nxt = []
				for s_, vals, ms in outs:
					for s2, v, m_ in self.nested_build(s_, c):
						nxt.append((s2, vals + [v], ms + [m_]))
				outs = nxt
			return [(s_, Agg("Value", "Array", (("vec", tuple(vals)),)), ("arr", ms)) for s_, vals, ms in outs]
		outs = [(st, Agg("Object", None, (("vec", ()), ("imap", ()))), [])]
		for c in shape[1]:
			nxt = []
			for s_, ob, ms in outs:
				for s2, v, m_ in self.nested_build(s_, c):
					k = s2.aux["nk"]
					s2.aux["nk"] = k + 1
					while len(self.keys.vars) <= k:
						self.keys.fresh()
					slot = 3000 + s2.aux.get("slots", 0)
					s2.aux["slots"] = s2.aux.get("slots", 0) + 1
					s2.frames[0].locals[slot] = ob
					for s3, _ in self.call(s2, self.prog.by["push"], [Ref(0, slot, ()), ("key", k), v]):
						nxt.append((s3, s3.frames[0].locals[slot], ms + [(k, m_)]))
			outs = nxt
		return [(s_, Agg("Value", "Object", (ob,)), ("obj", ms)) for s_, ob, ms in outs]

	def nested_ueq(self, st, a, b):
		"""[(state, bool)] — the recursive definition"""
		if a[0] != b[0]:
			return [(st, False)]
		if a[0] == "s":
			return [(st, a[1] == b[1])]
		if len(a[1]) != len(b[1]):
			return [(st, False)]
		if a[0] == "arr":
			outs = [(st, True)]
			for x, y in zip(a[1], b[1]):
				nxt = []
				for s_, ok_ in outs:
					if not ok_:
						nxt.append((s_, False))
					else:
						nxt += self.nested_ueq(s_, x, y)
				outs = nxt
			return outs
		# objects: greedy one-to-one matching (sound for an equivalence)
		out = []

		def match(s_, i, free):
			if i >= len(a[1]):
				out.append((s_, True))
				return

			def search(s2, cand):
				if not cand:
					out.append((s2, False))
					return
				j = cand[0]
				for s3, eq in self.keys.split(s2, "eq", a[1][i][0], b[1][j][0]):
					if not eq:
						search(s3, cand[1:])
						continue
					for s4, same in self.nested_ueq(s3, a[1][i][1], b[1][j][1]):
						if same:
							match(s4, i + 1, [x for x in free if x != j])
						else:
							search(s4, cand[1:])

			search(s_, free)

		match(st, 0, list(range(len(b[1]))))
		return out


	def multiset_eq(self, st, A, B):
		"""[(state, bool)]: B is a permutation of A (keys compared through the solver)"""
		out = []
		work = [(st, 0, list(range(len(B))))]
		if len(A) != len(B):
			return [(st, False)]
		while work:
			s, i, free = work.pop()
			if i >= len(A):
				out.append((s, True))
				continue
			# find the first unmatched entry of B equal to A[i]
			def search(s2, cand):
				if not cand:
					out.append((s2, False))
					return
				j = cand[0]
				if B[j][1] != A[i][1]:
					search(s2, cand[1:])
					return
				for s3, eq in self.keys.split(s2, "eq", A[i][0], B[j][0]):
					if eq:
						work.append((s3, i + 1, [x for x in free if x != j]))
					else:
						search(s3, cand[1:])

			search(s, free)
		return out

	def explore_mapped(self, n_max, budget):
		"""C11: key-based mapped lookups. Objects of <= n_max entries built by interpreted pushes (keys
		symbolic), a code map whose volumes are an UNINTERPRETED FUNCTION vol(index) (children of
		arbitrary size), a symbolic container offset `base`, a symbolic query key: `get_mapped_entries`
		and `get_mapped` must yield, for every entry carrying the key, in order, the offsets the C05
		layout gives them: entry i at E(i) = base + 1 + sum_{j<i} (2 + vol(E(j) + 2)), key at E+1, value
		at E+2. Equality of offsets is decided by z3 over vol and base."""
		t0 = time.time()
		prog = self.prog
		fns = {}
		for name in ITER_LOOKUPS + UNIQUE_LOOKUPS + ("iter_mapped",):
			for f in prog.fns:
				if re.match(r"^object::<impl at src/object/mod\.rs:[0-9: ]+>::%s\(_1: &Object" % name, f.header):
					fns[name] = f
			if name not in fns:
				raise MirError("Object::%s not found in the MIR dump" % name)
		base = z3.Int("base")
		self.pairs = 0

		def prove_eq(x, y):
			if isinstance(x, int) and isinstance(y, int):
				return x == y
			s = z3.Solver()
			s.add(base >= 0)
			s.add((x if not isinstance(x, int) else z3.IntVal(x)) != (y if not isinstance(y, int) else z3.IntVal(y)))
			self.keys.queries += 1
			return s.check() == z3.unsat

		for n in range(0, n_max + 1):
			st = State()
			st.frames.append(Frame(None, {1: Agg("Object", None, (("vec", ()), ("imap", ())))}))
			st.aux["nk"] = 0
			states = [(st, [])]
			for j in range(n):
				nxt = []
				for s, model in states:
					k = s.aux["nk"]
					s.aux["nk"] = k + 1
					while len(self.keys.vars) <= k:
						self.keys.fresh()
					for s2, res in self.call(s, prog.by["push"], [Ref(0, 1, ()), ("key", k), j]):
						nxt.append((s2, model + [(k, j)]))
				states = nxt
			for s, model in states:
				# expected entry offsets per the C05 layout
				E = []
				at = base + 1
				for j in range(n):
					E.append(at)
					at = at + 2 + self.models.VOL(at + 2)
				q = s.aux["nk"]
				while len(self.keys.vars) <= q:
					self.keys.fresh()
				def deref(s_, r):
					while isinstance(r, Ref):
						r = self.models.rd(self.ip, s_, r)
					return r

				def item_ok(s_, which, m_, p_):
					"""the yielded item is entry p_ of the object (content AND offsets)"""
					if "with_index" in which:
						if not (isinstance(m_, Agg) and m_.ty == "tuple" and m_.fields[0] == p_):
							return False
						m_ = m_.fields[1]
					if "entr" in which or which == "iter_mapped":
						off, ent = m_.fields
						return prove_eq(off, E[p_]) and prove_eq(ent.fields[0].fields[0], E[p_] + 1) and prove_eq(ent.fields[1].fields[0], E[p_] + 2) and \
						       deref(s_, ent.fields[1].fields[1]) == model[p_][1] and key_of(deref(s_, ent.fields[0].fields[1])) == model[p_][0]
					return prove_eq(m_.fields[0], E[p_] + 2) and deref(s_, m_.fields[1]) == model[p_][1]

				for which in ITER_LOOKUPS + ("iter_mapped",):
					s0 = s.fork()
					s0.aux["nk"] = q + 1
					s0.frames[0].locals[2] = ("key", q)
					s0.frames[0].locals[9] = ("codemap",)
					args = [Ref(0, 1, ()), Ref(0, 9, ()), base] + ([Ref(0, 2, ())] if which != "iter_mapped" else [])
					for s1, it in self.call(s0, fns[which], args):
						# iter_mapped: the full walk yields every entry, in order
						for s2, ps in (self.positions(s1, model, q) if which != "iter_mapped" else [(s1, list(range(n)))]):
							s2.frames[0].locals[3] = it
							cur = [s2]
							for step_i in range(len(ps) + 1):
								nxt = []
								for s3 in cur:
									callee = "<%s as Iterator>::next" % it.ty
									fn = prog.resolve(callee, callee, [])
									if fn is None:
										raise MirError("next of %s not found in the MIR dump" % it.ty)
									for s4, r in self.call(s3, fn, [Ref(0, 3, ())]):
										self.pairs += 1
										if step_i == len(ps):
											if r.variant != "None":
												self.violation(s4, [[which, [model, "query k%d" % q]]], "C11:mapped-lookup-yields-nothing-more", "extra item %r" % (r,))
											else:
												nxt.append(s4)
											continue
										p_ = ps[step_i]
										if r.variant != "Some":
											self.violation(s4, [[which, [model, "query k%d" % q]]], "C11:mapped-lookup-yields-every-matching-entry", "ended after %d of %d" % (step_i, len(ps)))
											continue
										m_ = r.fields[0]
										if not item_ok(s4, which, m_, p_):
											self.violation(s4, [[which, [model, "query k%d" % q]]], "C11:mapped-lookup-entry-offset", "match %d (entry %d): yielded %r" % (step_i, p_, m_))
										else:
											nxt.append(s4)
								cur = nxt
				# the unique variants: Ok(None) / Ok(Some(first match)) / Err(Duplicate(first, second))
				for which in UNIQUE_LOOKUPS:
					s0 = s.fork()
					s0.aux["nk"] = q + 1
					s0.frames[0].locals[2] = ("key", q)
					s0.frames[0].locals[9] = ("codemap",)
					for s1, r in self.call(s0, fns[which], [Ref(0, 1, ()), Ref(0, 9, ()), base, Ref(0, 2, ())]):
						for s2, ps in self.positions(s1, model, q):
							self.pairs += 1
							if not ps:
								good = r.variant == "Ok" and r.fields[0].variant == "None"
							elif len(ps) == 1:
								good = r.variant == "Ok" and r.fields[0].variant == "Some" and item_ok(s2, which, r.fields[0].fields[0], ps[0])
							else:
								d_ = r.fields[0] if r.variant == "Err" else None
								good = d_ is not None and item_ok(s2, which, d_.fields[0], ps[0]) and item_ok(s2, which, d_.fields[1], ps[1])
							if not good:
								self.violation(s2, [[which, [model, "query k%d" % q]]], "C11:unique-mapped-lookup-result", "%d matching entr(ies) %r: returned %r" % (len(ps), ps, r))
			if budget and time.time() - t0 > budget:
				return

	def explore_convert(self, n_max, budget):
		"""C11: `Vec<T>::try_from_json_at` for T = bool and T = Vec<bool> — the MIR of the conversion, of
		the array walk `JsonArray::iter_mapped` / `array::IterMapped::next` and of
		`bool::try_from_json_at`, on every value of the stated shapes, with a SYMBOLIC offset `base` and
		a code map read through the uninterpreted vol(index), constrained to the C05 layout of the value
		at `base` (a scalar has volume 1, an array 1 + the volumes of its items). Oracle: the recursive
		definition — a non-array where an array is wanted gives Err at its own offset with expected
		ARRAY, a non-boolean where a boolean is wanted gives Err at its own offset with expected BOOLEAN,
		the first error in document order wins, item i of an array at `o` lies at
		o + 1 + sum_{j<i} vol(item j); otherwise Ok of the nested booleans."""
		t0 = time.time()
		prog = self.prog
		fn_vec = fn_bool = None
		for f in prog.fns:
			if re.match(r"^try_from::<impl at src/try_from\.rs:[0-9: ]+>::try_from_json_at\(_1: &Value, _2: &CodeMap, _3: usize\) -> Result<Vec<T>", f.header):
				fn_vec = f
			if re.match(r"^try_from::<impl at src/try_from\.rs:[0-9: ]+>::try_from_json_at\(_1: &Value, _2: &CodeMap, _3: usize\) -> Result<bool, ", f.header):
				fn_bool = f
		if fn_vec is None or fn_bool is None:
			raise MirError("Vec<T>::try_from_json_at / bool::try_from_json_at not found in the MIR dump")
		self.ip.enums["Value"] = enum_variants(self.repo, "src/lib.rs", "Value")
		self.ip.enums["Kind"] = enum_variants(self.repo, "src/kind.rs", "Kind")
		for fname in ("src/array.rs", "src/code_map.rs", "src/try_from.rs"):
			for k, v in struct_fields(self.repo, fname).items():
				if k in ("Mapped", "Unexpected"):
					self.ip.struct_fields[k] = v
		if self.ip.struct_fields.get("Mapped") != ["offset", "value"] or self.ip.struct_fields.get("Unexpected") != ["expected", "found"]:
			raise MirError("struct Mapped / Unexpected: unexpected field lists")
		base = z3.Int("base")
		self.pairs = 0
		nesting = {"n": 1}

		# `T::try_from_json_at` inside Vec<T>'s impl: T is Vec<..<bool>> — the instantiation is chosen by
		# how many frames of the Vec impl are on the stack (type-directed, as monomorphisation does)
		def t_dispatch(ip, st, a):
			d = sum(1 for fr in st.frames if fr.fn is fn_vec)
			return [(st, CallFn(fn_vec if d < nesting["n"] else fn_bool, list(a)))]

		self.ip.models["<T as try_from::TryFromJson>::try_from_json_at"] = t_dispatch
		self.ip.models["<T as TryFromJson>::try_from_json_at"] = t_dispatch

		def agg(v):
			if v == "t" or v == "f":
				return Agg("Value", "Boolean", (v == "t",))
			if v == "n":
				return Agg("Value", "Null", ())
			return Agg("Value", "Array", (("vec", tuple(agg(c) for c in v[1])),))

		def layout(v, off, facts):
			"""adds vol(off) == volume(v) for v and its descendants; returns the volume"""
			n = 1
			if isinstance(v, tuple):
				for c in v[1]:
					n += layout(c, off + n, facts)
			facts.append(self.models.VOL(off) == n)
			return n

		def oracle(v, off, depth):
			if depth == 0:
				return ("Ok", v == "t") if v in ("t", "f") else ("Err", off, "BOOLEAN", CONV_KIND(v))
			if not isinstance(v, tuple):
				return ("Err", off, "ARRAY", CONV_KIND(v))
			at = off + 1
			acc = []
			for c in v[1]:
				r = oracle(c, at, depth - 1)
				if r[0] == "Err":
					return r
				acc.append(r[1])
				at = at + conv_volume(c)
			return ("Ok", ("vec", tuple(acc)))

		def prove_eq(x, y, facts):
			if isinstance(x, int) and isinstance(y, int):
				return x == y
			sv = z3.Solver()
			sv.add(base >= 0)
			sv.add(*facts)
			sv.add((x if not isinstance(x, int) else z3.IntVal(x)) != (y if not isinstance(y, int) else z3.IntVal(y)))
			self.keys.queries += 1
			return sv.check() == z3.unsat

		for depth, vals in conv_values(n_max):
			nesting["n"] = depth
			for v in vals:
				st = State()
				st.frames.append(Frame(None, {1: agg(v), 9: ("codemap",)}))
				st.aux["nk"] = 0
				hist = [["Vec<%s>::try_from_json_at" % ("bool" if depth == 1 else "Vec<bool>"), [depth, conv_json(v)]]]
				facts = []
				layout(v, base, facts)
				results = self.call(st, fn_vec, [Ref(0, 1, ()), Ref(0, 9, ()), base])
				if len(results) != 1:
					raise MirError("conversion of a concrete shape forked: %d results" % len(results))
				s2, r = results[0]
				self.pairs += 1
				self.paths += 1
				want = oracle(v, base, depth)
				if want[0] == "Ok":
					if not (isinstance(r, Agg) and r.variant == "Ok" and r.fields[0] == want[1]):
						self.violation(s2, hist, "C11:conversion-of-well-typed-array", "yielded %r" % (r,))
				else:
					good = isinstance(r, Agg) and r.variant == "Err"
					if good:
						m_ = r.fields[0]
						u = m_.fields[1]
						good = u.fields[0] == Agg("const", "KindSet::" + want[2], ()) and u.fields[1] == Agg("Kind", want[3], ()) and prove_eq(m_.fields[0], want[1], facts)
					if not good:
						self.violation(s2, hist, "C11:conversion-error-at-the-offset-of-the-offending-value", "yielded %r" % (r,))
				if budget and time.time() - t0 > budget:
					self.timed_out = True
					return
		self.explore_convert_map(min(n_max, 3), budget, base, prove_eq, t0)

	def explore_convert_map(self, n_max, budget, base, prove_eq, t0):
		"""C11: `BTreeMap<K, V>::try_from_json_at` for K = String, V = bool — the MIR of the conversion
		and of `Object::iter_mapped` / `object::IterMapped::next`, on null, true and every object of
		<= n_max entries with SYMBOLIC keys (which keys coincide is decided by the solver: that decides
		which entries replace which in the map) and values from {true, false, null, [null]}; symbolic
		offset, code map read through vol() constrained to the C05 layout. Oracle: a non-object gives Err
		at `base` (expected OBJECT); else the entries are converted in order, the first non-boolean value
		gives Err at ITS offset E(i) + 2 (expected BOOLEAN) — also when its key repeats an earlier one —
		and otherwise Ok of the map in which a later entry of an equal key replaces the earlier value."""
		prog = self.prog
		fn_map = fn_bool = None
		for f in prog.fns:
			if re.match(r"^try_from::<impl at src/try_from\.rs:[0-9: ]+>::try_from_json_at\(_1: &Value, _2: &CodeMap, _3: usize\) -> Result<BTreeMap<K, V>", f.header):
				fn_map = f
			if re.match(r"^try_from::<impl at src/try_from\.rs:[0-9: ]+>::try_from_json_at\(_1: &Value, _2: &CodeMap, _3: usize\) -> Result<bool, ", f.header):
				fn_bool = f
		if fn_map is None or fn_bool is None:
			raise MirError("BTreeMap<K, V>::try_from_json_at not found in the MIR dump")
		for k in ("<V as try_from::TryFromJson>::try_from_json_at", "<V as TryFromJson>::try_from_json_at"):
			self.ip.models[k] = lambda ip, st, a: [(st, CallFn(fn_bool, list(a)))]
		NULL = Agg("Value", "Null", ())
		ITEMS = {"t": Agg("Value", "Boolean", (True,)), "f": Agg("Value", "Boolean", (False,)), "n": NULL, "a": Agg("Value", "Array", (("vec", (NULL,)),))}
		KIND = {"t": "Boolean", "f": "Boolean", "n": "Null", "a": "Array"}
		VOLC = {"t": 1, "f": 1, "n": 1, "a": 2}
		shapes = [("top", "t"), ("top", "n")] + [("obj", "".join(x)) for n in range(n_max + 1) for x in itertools.product("tfna", repeat=n)]
		for kind, shape in shapes:
			st = State()
			st.frames.append(Frame(None, {1: Agg("Object", None, (("vec", ()), ("imap", ()))), 9: ("codemap",)}))
			st.aux["nk"] = 0
			hist = [["BTreeMap<String,bool>::try_from_json_at", [kind, shape]]]
			if kind == "top":
				st.frames[0].locals[5] = ITEMS[shape]
				for s2, r in self.call(st, fn_map, [Ref(0, 5, ()), Ref(0, 9, ()), base]):
					self.pairs += 1
					good = isinstance(r, Agg) and r.variant == "Err" and r.fields[0].fields[1].fields[0] == Agg("const", "KindSet::OBJECT", ()) and \
					       r.fields[0].fields[1].fields[1] == Agg("Kind", KIND[shape], ()) and prove_eq(r.fields[0].fields[0], base, [])
					if not good:
						self.violation(s2, hist, "C11:conversion-error-at-the-offset-of-the-offending-value", "non-object at base: %r" % (r,))
				continue
			states = [st]
			for j, c in enumerate(shape):
				nxt = []
				for s in states:
					k = s.aux["nk"]
					s.aux["nk"] = k + 1
					while len(self.keys.vars) <= k:
						self.keys.fresh()
					for s2, _ in self.call(s, prog.by["push"], [Ref(0, 1, ()), ("key", k), ITEMS[c]]):
						nxt.append(s2)
				states = nxt
			E = []
			facts = []
			at = base + 1
			for c in shape:
				E.append(at)
				facts.append(self.models.VOL(at + 2) == VOLC[c])
				at = at + 2 + VOLC[c]
			bad = next((i for i, c in enumerate(shape) if c not in "tf"), None)
			for s in states:
				s.frames[0].locals[5] = Agg("Value", "Object", (s.frames[0].locals[1],))
				for s2, r in self.call(s, fn_map, [Ref(0, 5, ()), Ref(0, 9, ()), base]):
					self.pairs += 1
					self.paths += 1
					if bad is not None:
						good = isinstance(r, Agg) and r.variant == "Err"
						if good:
							m_ = r.fields[0]
							good = m_.fields[1].fields[0] == Agg("const", "KindSet::BOOLEAN", ()) and m_.fields[1].fields[1] == Agg("Kind", KIND[shape[bad]], ()) and prove_eq(m_.fields[0], E[bad] + 2, facts)
						if not good:
							self.violation(s2, hist, "C11:conversion-error-at-the-offset-of-the-offending-value", "entry %d: yielded %r" % (bad, r))
						continue
					# expected map: later entries replace the value of an equal earlier key
					work = [(s2, 0, [])]
					while work:
						s3, j, acc = work.pop()
						if j >= len(shape):
							got = None
							if isinstance(r, Agg) and r.variant == "Ok" and isinstance(r.fields[0], tuple) and r.fields[0][0] == "bmap":
								got = [(key_of(k_), v_) for k_, v_ in r.fields[0][1]]
							if got != acc:
								self.violation(s3, hist, "C11:conversion-of-well-typed-object", "yielded %r, expected %r (key variable, value)" % (r, acc))
							continue

						def place(s4, i, acc=acc, j=j):
							if i >= len(acc):
								work.append((s4, j + 1, acc + [(j, shape[j] == "t")]))
								return
							for s5, eq in self.keys.split(s4, "eq", acc[i][0], j):
								if eq:
									work.append((s5, j + 1, acc[:i] + [(acc[i][0], shape[j] == "t")] + acc[i + 1:]))
								else:
									place(s5, i + 1)

						place(s3, 0)
			if budget and time.time() - t0 > budget:
				self.timed_out = True
				return

	def explore_canon_nested(self, level, budget):
		"""C09/C10 at depth: `Value::canonicalize_with` and `Object::canonicalize_with` from MIR,
		recursively, on nested values whose every key (at every depth) is one SYMBOLIC character, so
		that the solver decides both the equalities and the UTF-16 order of any two keys. After the
		call: (1) the value is unordered-equal to the original (recursive definition, same key
		decisions): nothing lost, added or moved between objects; (2) in EVERY object at EVERY depth the
		members are in non-decreasing UTF-16 order of their keys (boolean values break ties); (3) every
		object's index is canonical for its entries; (4) a second call changes nothing."""
		t0 = time.time()
		prog = self.prog
		fn = prog.resolve("Value::@canonicalize_with", None, [])
		if fn is None:
			raise MirError("Value::canonicalize_with not found in the MIR dump")
		self.ip.enums["Value"] = enum_variants(self.repo, "src/lib.rs", "Value")
		self.pairs = 0

		def model_of(v):
			if v.variant == "Boolean":
				return ("s", "t" if v.fields[0] else "f")
			if v.variant == "Array":
				return ("arr", [model_of(i) for i in v.fields[0][1]])
			return ("obj", [(key_of(e.fields[0]), model_of(e.fields[1])) for e in v.fields[0].fields[0][1]])

		def objects_of(v, path="$"):
			"""every object Agg in the value, with a path for messages"""
			if v.variant == "Array":
				for i, c in enumerate(v.fields[0][1]):
					yield from objects_of(c, "%s[%d]" % (path, i))
			elif v.variant == "Object":
				yield path, v.fields[0]
				for i, e in enumerate(v.fields[0].fields[0][1]):
					yield from objects_of(e.fields[1], "%s.%d" % (path, i))

		def sorted_ok(st, ob):
			"""[(state, bad description or None)]"""
			ents = ob.fields[0][1]
			out = []
			work = [(st, 0)]
			while work:
				s, j = work.pop()
				if j + 1 >= len(ents):
					out.append((s, None))
					continue
				ka, kb = key_of(ents[j].fields[0]), key_of(ents[j + 1].fields[0])
				va, vb = ents[j].fields[1], ents[j + 1].fields[1]
				for s2, eq in self.keys.split(s, "eq", ka, kb):
					if eq:
						if va.variant == "Boolean" and vb.variant == "Boolean" and va.fields[0] and not vb.fields[0]:
							out.append((s2, "members %d and %d have equal keys and values true, false" % (j, j + 1)))
						else:
							work.append((s2, j + 1))
						continue
					for s3, lt in self.keys.split(s2, "lt16", ka, kb):
						if lt:
							work.append((s3, j + 1))
						else:
							out.append((s3, "members %d and %d are out of UTF-16 order" % (j, j + 1)))
			return out

		def index_ok(st, ob):
			"""[(state, bad or None)]: the buckets are exactly the key classes, positions ascending"""
			ents = ob.fields[0][1]
			keys_ = [key_of(e.fields[0]) for e in ents]
			buckets = ob.fields[1][1]
			seen = set()
			for rep, other in buckets:
				ps = (rep,) + tuple(other)
				if any(p_ >= len(ents) for p_ in ps) or list(ps) != sorted(set(ps)) or seen & set(ps):
					return [(st, "index bucket %r invalid for %d entries" % (ps, len(ents)))]
				seen |= set(ps)
			if seen != set(range(len(ents))):
				return [(st, "index does not cover positions %r" % (sorted(set(range(len(ents))) - seen),))]
			out = []
			work = [(st, list(buckets))]
			while work:
				s, bs = work.pop()
				if not bs:
					out.append((s, None))
					continue
				(rep, other), rest = bs[0], bs[1:]
				# positions of the representative's key among the entries
				w2 = [(s, 0, [])]
				while w2:
					s2, j, acc = w2.pop()
					if j >= len(keys_):
						if acc != [rep] + list(other):
							out.append((s2, "bucket %r, positions of its key %r" % ((rep,) + tuple(other), acc)))
						else:
							work.append((s2, rest))
						continue
					for s3, eq in self.keys.split(s2, "eq", keys_[j], keys_[rep]):
						w2.append((s3, j + 1, acc + [j] if eq else acc))
			return out

		for shape in canon_shapes(level):
			st = State()
			st.frames.append(Frame(None, {}))
			st.aux["nk"] = 0
			for s1, val, before in self.nested_build(st, shape):
				s1.frames[0].locals[1] = val
				s1.frames[0].locals[4] = ("buffer",)
				hist = [["canonicalize_nested", [nested_text(shape)]]]
				for s2, _ in self.call(s1, fn, [Ref(0, 1, ()), Ref(0, 4, ())]):
					after_v = s2.frames[0].locals[1]
					after = model_of(after_v)
					n0 = len(self.violations)
					states = []
					for s3, same in self.nested_ueq(s2, before, after):
						self.pairs += 1
						if not same:
							self.violation(s3, hist, "C10:canonicalization-keeps-the-entries-at-every-depth", "before %r, after %r (key variable, value)" % (before, after))
						else:
							states.append(s3)
					for path, ob in objects_of(after_v):
						nxt = []
						for s3 in states:
							for s4, bad in sorted_ok(s3, ob):
								if bad:
									self.violation(s4, hist, "C09:members-sorted-by-utf16-code-units-at-every-depth", "object at %s: %s; after: %r" % (path, bad, after))
									continue
								for s5, bad2 in index_ok(s4, ob):
									if bad2:
										self.violation(s5, hist, "C06+C10:index-canonical-and-queryable-after-canonicalization", "object at %s: %s" % (path, bad2))
									else:
										nxt.append(s5)
						states = nxt
					for s3 in states[:1]:
						# idempotence (the run is deterministic given the decisions made so far)
						for s4, _ in self.call(s3.fork(), fn, [Ref(0, 1, ()), Ref(0, 4, ())]):
							if s4.frames[0].locals[1] != after_v and not s4.aux.get("tie_unmodelled"):
								self.violation(s4, hist, "C10:canonicalization-is-idempotent", "second call: %r, first: %r" % (model_of(s4.frames[0].locals[1]), after))
					for v in self.violations[n0:]:
						v["shape"] = shape
			if len(self.violations) >= 6:
				return
			if budget and time.time() - t0 > budget:
				self.timed_out = True
				return

	def explore_fragments(self, level, budget):
		"""C11: fragment lookup by index and the traversal. For every value of the stated shapes (nested
		arrays and objects; every scalar and key carries a unique tag so that a fragment is identified
		by its content), `Value::get_fragment(index)` is run on the MIR with a SYMBOLIC index (an
		unbounded non-negative integer): every branch on the index (`index == 0`, the `match index`
		of Entry::get_fragment) forks under the path condition, decided by z3. Per path: Ok(fragment)
		must be fragment number c of the pre-order traversal with the path condition implying
		index == c; Err(e) must come with the path condition implying index >= total and
		e == index - total (the remaining distance); the paths must cover every index >= 0; no
		subtraction on the index may underflow. Besides (no symbolic input: plain interpretation of the
		MIR), `Value::traverse()` must yield (i, fragment i) for i = 0.. in that same pre-order and then
		None, and `Value::volume()` the number of value fragments."""
		t0 = time.time()
		prog = self.prog
		need = {}
		for k in ("Value::get_fragment", "Value::traverse", "Value::volume", "<Traverse as Iterator>::next"):
			need[k] = prog.resolve(k, None, [])
			if need[k] is None:
				raise MirError("%s not found in the MIR dump" % k)
		self.ip.enums["Value"] = enum_variants(self.repo, "src/lib.rs", "Value")
		self.ip.enums["FragmentRef"] = enum_variants(self.repo, "src/lib.rs", "FragmentRef")
		self.ip.enums["SubFragments"] = enum_variants(self.repo, "src/lib.rs", "SubFragments")
		self.ip.struct_fields["Traverse"] = struct_fields(self.repo, "src/lib.rs").get("Traverse")
		if self.ip.struct_fields["Traverse"] != ["offset", "stack"]:
			raise MirError("struct Traverse: unexpected field list")
		index = z3.Int("index")
		self.pairs = 0

		def sat(cs):
			sv = z3.Solver()
			sv.add(index >= 0)
			sv.add(*cs)
			self.keys.queries += 1
			return sv.check() == z3.sat

		def switch(ip, st, v, targets, other):
			pc = st.aux.get("ipc", ())
			out = []
			neg = []
			for a_, bb in targets:
				c = (z3.Not(v) if a_ == 0 else v) if z3.is_bool(v) else (v == a_)
				if sat(pc + (c,)):
					s2 = st.fork()
					s2.aux["ipc"] = pc + (c,)
					out.append((s2, bb))
				neg.append(z3.Not(c))
			if other is not None and sat(pc + tuple(neg)):
				s2 = st.fork()
				s2.aux["ipc"] = pc + tuple(neg)
				out.append((s2, other))
			return out

		def binop(ip, st, op, a_, b_):
			if op == "Sub" and (z3.is_expr(a_) or z3.is_expr(b_)):
				# usize subtraction: must not wrap under the path condition
				if sat(st.aux.get("ipc", ()) + (a_ < b_,)):
					st.aux["underflow"] = "%s - %s" % (a_, b_)
			return None

		self.ip.models["@switch"] = switch
		self.ip.models["@binop"] = binop
		tag = {"n": 0}

		def build(v, path):
			"""(Agg value, [pre-order fragments as (kind, location path under the root local)])"""
			if v == "s":
				tag["n"] += 1
				return Agg("Value", "Number", (("num", tag["n"]),)), [("Value", path)]
			if v[0] == "arr":
				items = [build(c, path + (0, i)) for i, c in enumerate(v[1])]
				return Agg("Value", "Array", (("vec", tuple(i[0] for i in items)),)), [("Value", path)] + [f for i in items for f in i[1]]
			ents = []
			frs = []
			for i, c in enumerate(v[1]):
				tag["n"] += 1
				ep = path + (0, 0, i)
				val, sub = build(c, ep + (1,))
				ents.append(Agg("Entry", None, (("keytag", tag["n"]), val)))
				frs += [("Entry", ep), ("Key", ep + (0,))] + sub
			return Agg("Value", "Object", (Agg("Object", None, (("vec", tuple(ents)), ("imap", ()))),)), [("Value", path)] + frs

		def frag_of(s_, fr):
			r = fr.fields[0]
			while isinstance(r, Ref) and isinstance(self.models.rd(self.ip, s_, r), Ref):
				r = self.models.rd(self.ip, s_, r)
			if not (isinstance(r, Ref) and r[0] == 0 and r[1] == 1):
				return (fr.variant, ("?", repr(r)))
			return (fr.variant, tuple(r[2]))

		for shape in frag_shapes(level):
			tag["n"] = 0
			val, F = build(shape, ())
			total = len(F)
			hist = [["get_fragment", [frag_json(shape)]]]
			# ---- lookup by a symbolic index
			st = State()
			st.frames.append(Frame(None, {1: val}))
			st.aux["nk"] = 0
			st.aux["ipc"] = ()
			pcs = []
			for s2, r in self.call(st, need["Value::get_fragment"], [Ref(0, 1, ()), index]):
				self.pairs += 1
				self.paths += 1
				pc = s2.aux.get("ipc", ())
				pcs.append(z3.And(*pc) if pc else z3.BoolVal(True))
				if s2.aux.get("underflow"):
					self.violation(s2, hist, "C11:fragment-index-arithmetic-never-wraps", "possible underflow of %s" % s2.aux["underflow"])
					continue
				if isinstance(r, Agg) and r.variant == "Ok":
					got = frag_of(s2, r.fields[0])
					cs = [c for c in range(total) if F[c] == got]
					if len(cs) != 1 or sat(pc + (index != cs[0],)):
						m_ = z3.Solver()
						m_.add(index >= 0, *pc)
						m_.check()
						self.violation(s2, hist + [["index", str(m_.model()[index])]], "C11:fragment-lookup-returns-the-ith-fragment-of-the-traversal", "returned %r, which is fragment %s of the traversal" % (got, cs))
				elif isinstance(r, Agg) and r.variant == "Err":
					e = r.fields[0]
					if sat(pc + (z3.Or(index < total, (e if z3.is_expr(e) else z3.IntVal(e)) != index - total),)):
						m_ = z3.Solver()
						m_.add(index >= 0, *pc)
						m_.add(z3.Or(index < total, (e if z3.is_expr(e) else z3.IntVal(e)) != index - total))
						m_.check()
						self.violation(s2, hist + [["index", str(m_.model()[index])]], "C11:index-past-the-end-rejected-with-the-remaining-distance", "returned Err(%s) on a value of %d fragments" % (e, total))
				else:
					self.violation(s2, hist, "C11:fragment-lookup-returns-the-ith-fragment-of-the-traversal", "returned %r" % (r,))
			if sat((z3.Not(z3.Or(*pcs)),)):
				raise MirError("fragment lookup: the explored paths do not cover every index (shape %s)" % frag_json(shape))
			# ---- the traversal and the volume (concrete interpretation)
			st = State()
			st.frames.append(Frame(None, {1: val}))
			st.aux["nk"] = 0
			res = self.call(st, need["Value::traverse"], [Ref(0, 1, ())])
			if len(res) != 1:
				raise MirError("traverse forked")
			s2, it = res[0]
			s2.frames[0].locals[3] = it
			for i in range(total + 1):
				res = self.call(s2, need["<Traverse as Iterator>::next"], [Ref(0, 3, ())])
				if len(res) != 1:
					raise MirError("Traverse::next forked")
				s2, r = res[0]
				self.pairs += 1
				if i == total:
					if r.variant != "None":
						self.violation(s2, [["traverse", [frag_json(shape)]]], "C11:traversal-is-the-pre-order-of-the-fragments", "item %d past the end: %r" % (i, r))
					break
				if r.variant != "Some" or r.fields[0].fields[0] != i or frag_of(s2, r.fields[0].fields[1]) != F[i]:
					self.violation(s2, [["traverse", [frag_json(shape)]]], "C11:traversal-is-the-pre-order-of-the-fragments", "item %d: %r" % (i, r))
					break
			st = State()
			st.frames.append(Frame(None, {1: val}))
			st.aux["nk"] = 0
			res = self.call(st, need["Value::volume"], [Ref(0, 1, ())])
			nvals = sum(1 for k, _ in F if k == "Value")
			if len(res) != 1 or res[0][1] != nvals:
				self.violation(res[0][0], [["volume", [frag_json(shape)]]], "C11:volume-counts-the-value-fragments", "volume %r, %d values" % (res[0][1] if res else None, nvals))
			self.pairs += 1
			if budget and time.time() - t0 > budget:
				self.timed_out = True
				return

	def explore(self, depth, budget):
		t0 = time.time()
		st = State()
		st.frames.append(Frame(None, {1: Agg("Object", None, (("vec", ()), ("imap", ())))}))
		st.aux["nk"] = 0
		work = [(st, [], [])]
		self.timed_out = False
		while work:
			s, model, hist = work.pop()
			if self.with_content and hist and len(hist) <= self.content_depth:
				try:
					survivors = self.content_checks(s, model, hist)
				except MirError as e:
					if "PANIC" in str(e):
						self.violation(s, hist, "C14:operation-panics", str(e)[:200])
						continue
					raise
				for extra in survivors[1:]:
					work.append((extra, model, hist))
				if not survivors:
					continue
				s = survivors[0]
			if len(hist) >= depth:
				self.paths += 1
				if self.paths % self.sample_every == 1 and len(self.samples) < 400:
					self.samples.append((hist, self.keys.model(s)))
				continue
			n = len(model)
			nk = s.aux["nk"]
			choices = []
			for op in OPS:
				if op in ("push", "push_front"):
					choices.append((op, None))
				elif op in ("insert", "insert_front"):
					for c in (0, 2):
						choices.append((op, c))
				elif op == "remove_at":
					for i in range(n + 1):
						choices.append((op, i))
				elif op in ("remove", "remove_unique"):
					if op == "remove":
						for c in (0, 2):
							choices.append((op, (nk, c)))
					else:
						choices.append((op, (nk, 0)))
				elif op == "sort":
					if n >= 2:
						choices.append(("sort", None))
				elif op == "canon":
					if n >= 2 and "canonicalize_with" in self.prog.by:
						choices.append(("canon", None))
			for op, arg in choices:
				for s2, m2, h2 in self.step(s.fork(), list(model), list(hist), op, arg):
					work.append((s2, m2, h2))
				if len(self.violations) >= 12:
					return
			if budget and time.time() - t0 > budget:
				self.timed_out = True
				return


# ---------------------------------------------------------------------------
# native replay of a history (concrete keys from the solver's model) on the REAL Object


def concrete_ops(history, keyvals):
	"""history (as recorded by Explorer.step) -> op tokens of the native helper; keys are named
	order-preservingly (the solver's integers -> 'a', 'b', ... by rank)"""
	name = lambda k: chr(keyvals[k])
	ops = []
	nk = 0
	for tag, (op, arg) in enumerate(history):
		if op in ("push", "push_front"):
			ops.append("%s:%s:%d" % (op, name(nk), tag))
			nk += 1
		elif op in ("insert", "insert_front"):
			ops.append("%s:%s:%d:%d" % (op, name(nk), tag, arg))
			nk += 1
		elif op == "remove_at":
			ops.append("remove_at:%d" % arg)
		elif op == "remove":
			ops.append("remove:%s:%d" % (name(arg[0]), arg[1]))
			nk = max(nk, arg[0] + 1)
		elif op == "remove_unique":
			ops.append("remove_unique:%s" % name(arg[0]))
			nk = max(nk, arg[0] + 1)
		elif op == "canon":
			ops.append("canon")
		else:
			ops.append("sort")
	return ops


def expected_lines(ops):
	"""what the real Object must print for these operations, per the list model"""
	m = []  # (key, value)
	out = []
	kv = lambda e: "%s=#%d" % e

	def state():
		keys = sorted(set(k for k, _ in m))
		qs = []
		for k in keys:
			ix = [i for i, e in enumerate(m) if e[0] == k]
			qs.append("%s:%s:%s:Some(%d)" % (k, ".".join(map(str, ix)), ".".join(kv(m[i]) for i in ix), ix[0]))
		es = ",".join(kv(e) for e in m)

		def cmp3(a, b):
			return "Equal" if a == b else ("Less" if a < b else "Greater")

		def law(x):
			eq = str(m == x).lower()
			return "%s %s %s %s Some(%s)%s" % (eq, eq, cmp3(m, x), cmp3(x, m), cmp3(m, x), " hash-same" if m == x else "")

		laws = " L %s | %s" % (law(list(reversed(m))), law(m[1:])) if len(m) >= 2 else ""
		return "S %s Q %s C true %s Equal H true B true true Equal true%s" % (es, ";".join(qs), es, laws)

	def took(removed, c):
		return "|".join(kv(removed[i]) if i < len(removed) else "-" for i in range(c))

	for op in ops:
		f = op.split(":")
		if f[0] == "push":
			r = str(all(k != f[1] for k, _ in m)).lower()
			m.append((f[1], int(f[2])))
		elif f[0] == "push_front":
			r = str(all(k != f[1] for k, _ in m)).lower()
			m.insert(0, (f[1], int(f[2])))
		elif f[0] == "remove_at":
			i = int(f[1])
			r = kv(m.pop(i)) if i < len(m) else "none"
		elif f[0] == "insert":
			ps = [i for i, e in enumerate(m) if e[0] == f[1]]
			if not ps:
				m.append((f[1], int(f[2])))
				r = "none"
			else:
				removed = [m[i] for i in ps]
				m[ps[0]] = (f[1], int(f[2]))
				m[:] = [e for i, e in enumerate(m) if i not in ps[1:]]
				r = "some:" + took(removed, int(f[3]))
		elif f[0] == "insert_front":
			ps = [i for i, e in enumerate(m) if e[0] == f[1]]
			removed = [m[i] for i in ps]
			m[:] = [(f[1], int(f[2]))] + [e for i, e in enumerate(m) if i not in ps]
			r = "it:" + took(removed, int(f[3]))
		elif f[0] == "remove":
			ps = [i for i, e in enumerate(m) if e[0] == f[1]]
			removed = [m[i] for i in ps]
			m[:] = [e for i, e in enumerate(m) if i not in ps]
			r = "it:" + took(removed, int(f[2]))
		elif f[0] == "remove_unique":
			ps = [i for i, e in enumerate(m) if e[0] == f[1]]
			removed = [m[i] for i in ps]
			m[:] = [e for i, e in enumerate(m) if i not in ps]
			r = "ok:none" if not ps else ("ok:" + kv(removed[0]) if len(ps) == 1 else "dup:%s,%s" % (kv(removed[0]), kv(removed[1])))
		elif f[0] == "canon":
			m.sort(key=lambda e: (e[0].encode("utf-16-be"), e[1]))
			r = "-"
		else:
			m.sort()
			r = "-"
		out.append("R %s %s" % (r, state()))
	return out


def replay_history(native, history, keyvals):
	import subprocess

	ops = concrete_ops(history, keyvals)
	p = subprocess.run([native, "obj"] + ops, stdout=subprocess.PIPE, stderr=subprocess.DEVNULL, timeout=60)
	got = [l.rstrip() for l in p.stdout.decode(errors="replace").strip().split("\n")]
	want = [l.rstrip() for l in expected_lines(ops)]
	first = next((i for i in range(len(want)) if i >= len(got) or got[i] != want[i]), None)
	return dict(ops=ops, reproduced=first is not None, first_deviation=first,
	            got=got[first] if first is not None and first < len(got) else None, want=want[first] if first is not None else None)


def replay_mapped(native, model, qkey, keyvals):
	"""mapped lookups of a concrete object (every value an array of one item: volume 2) on the REAL
	Object with the REAL code map of the parsed document, against the C05 layout"""
	import subprocess

	name = lambda k: chr(keyvals[k])
	spec = ",".join("%s:2" % name(k) for k, _ in model)
	q = name(qkey)
	p = subprocess.run([native, "mapped", spec, q], stdout=subprocess.PIPE, stderr=subprocess.DEVNULL, timeout=60)
	got = p.stdout.decode(errors="replace").strip()
	E = []
	at = 1
	for _ in model:
		E.append(at)
		at += 2 + 2
	ps = [i for i, (k, _) in enumerate(model) if name(k) == q]
	def uniq(f):
		return "none" if not ps else ("one:" + f(ps[0]) if len(ps) == 1 else "dup:%s+%s" % (f(ps[0]), f(ps[1])))

	want = "E %s V %s I %s W %s X %s U %s %s %s %s" % (
		";".join("%d.%d.%d" % (E[i], E[i] + 1, E[i] + 2) for i in ps), ";".join("%d" % (E[i] + 2) for i in ps),
		";".join("%d.%d.%d" % (e, e + 1, e + 2) for e in E),
		";".join("%d@%d.%d.%d" % (i, E[i], E[i] + 1, E[i] + 2) for i in ps), ";".join("%d@%d" % (i, E[i] + 2) for i in ps),
		uniq(lambda i: "%d" % E[i]), uniq(lambda i: "%d" % (E[i] + 2)), uniq(lambda i: "%d@%d" % (i, E[i])), uniq(lambda i: "%d@%d" % (i, E[i] + 2)))
	return dict(object=spec, query=q, got=got, want=want, reproduced=(got != want))


def nested_pairs(level):
	"""pairs (X, Y) of shapes with the same top-level kind and length (the others are decided by the
	first comparison). Inner values D: level 1: t, f, [t], {k:t}, {k:t,k:f}; level 2 adds [], {}, {k:t,k:t}. Outer: arrays and objects of <= 2 items/entries over D."""
	D = ["t", "f", ("arr", ("t",)), ("obj", ("t",)), ("obj", ("t", "f"))]
	if level >= 2:
		D += [("arr", ()), ("obj", ()), ("obj", ("t", "t"))]
	out = []
	for kind in ("arr", "obj"):
		for n in range(0, 3):
			vals = [(kind, x) for x in itertools.product(D, repeat=n)]
			out += [(a_, b_) for a_ in vals for b_ in vals]
	# a few pairs of different kind / length
	out += [("t", ("arr", ())), (("arr", ()), ("obj", ())), (("arr", ("t",)), ("arr", ("t", "t"))), (("obj", ("t",)), ("obj", ("t", "t")))]
	return out


def nested_text(v, ctr=None):
	ctr = ctr if ctr is not None else {"k": 0}
	if v in ("t", "f"):
		return "true" if v == "t" else "false"
	if v[0] == "arr":
		return "[" + ",".join(nested_text(c, ctr) for c in v[1]) + "]"
	parts = []
	for c in v[1]:
		inner = nested_text(c, ctr)
		parts.append('"k%d":%s' % (ctr["k"], inner))
		ctr["k"] += 1
	return "{" + ",".join(parts) + "}"


def canon_shapes(level):
	"""level 1: objects of <= 2 members with values from {t, {}, {k:t}, {k:t,k:f}, [{k:t,k:f}]} and arrays of
	<= 2 items from {t, {k:t,k:f}, [{k:t,k:f}]} (an array directly inside an array); level 2 adds: objects of <= 2 members with at least one value among
	{k:{k:t,k:f}} (three levels) and {k:t,k:f,k:t}, and objects of 3 members with values from {t, {k:t}, {k:t,k:f}}"""
	O2 = ("obj", ("t", "f"))
	D = ["t", ("obj", ()), ("obj", ("t",)), O2, ("arr", (O2,))]
	out = []
	for k in range(3):
		out += [("obj", x) for x in itertools.product(D, repeat=k)]
	if level >= 2:
		D2 = D + [("obj", (O2,)), ("obj", ("t", "f", "t"))]
		out += [("obj", x) for k in range(1, 3) for x in itertools.product(D2, repeat=k) if any(c in D2[5:] for c in x)]
		out += [("obj", x) for x in itertools.product(["t", ("obj", ("t",)), O2], repeat=3)]
	for k in range(3):
		out += [("arr", x) for x in itertools.product(["t", O2, ("arr", (O2,))], repeat=k)]
	return out


def replay_canon(native, shape, keyvals):
	"""canonicalize() on the REAL value parsed from text (keys from the solver's model, numbered in
	construction order): the result must be unordered-equal to the input, sorted by UTF-16 key at
	every depth, with every object's index answering for every key, and stable under a second call"""
	import subprocess

	ctr = {"k": 0}

	def text(v):
		if v in ("t", "f"):
			return "true" if v == "t" else "false"
		if v[0] == "arr":
			return "[" + ",".join(text(c) for c in v[1]) + "]"
		parts = []
		for c in v[1]:
			inner = text(c)
			k = keyvals[ctr["k"]] if ctr["k"] < len(keyvals) else 0x41 + ctr["k"]
			ctr["k"] += 1
			parts.append("%s:%s" % (json.dumps(chr(k)), inner))
		return "{" + ",".join(parts) + "}"

	src = text(shape)
	p = subprocess.run([native, "canon", src], stdout=subprocess.PIPE, stderr=subprocess.DEVNULL, timeout=60)
	got = p.stdout.decode(errors="replace").strip()
	why = None
	try:
		first, second, index = got.split("\t")
		pairs = lambda t: json.loads(t, object_pairs_hook=lambda ps: ("obj", ps))

		def norm(v):
			if isinstance(v, tuple):
				return ("obj", sorted(((k, norm(x)) for k, x in v[1]), key=repr))
			if isinstance(v, list):
				return [norm(x) for x in v]
			return v

		def sorted16(v):
			if isinstance(v, tuple):
				ks = [k.encode("utf-16-be") for k, _ in v[1]]
				vs_ = [x for _, x in v[1]]
				ties = all(not (ks[i] == ks[i + 1] and vs_[i] is True and vs_[i + 1] is False) for i in range(len(ks) - 1))
				return ties and all(ks[i] <= ks[i + 1] for i in range(len(ks) - 1)) and all(sorted16(x) for _, x in v[1])
			if isinstance(v, list):
				return all(sorted16(x) for x in v)
			return True

		a, b = pairs(src), pairs(first)
		if norm(a) != norm(b):
			why = "content changed"
		elif not sorted16(b):
			why = "members not in UTF-16 order"
		elif first != second:
			why = "not idempotent"
		elif index != "index-ok":
			why = "stale index"
	except Exception as e:  # noqa: BLE001
		why = "unreadable output (%s)" % e
	return dict(value=src, got=got, want="a canonical form of the input", why=why, reproduced=why is not None, shape=shape, keys=list(keyvals))


def frag_shapes(level):
	"""level 1: nesting depth <= 2, containers of <= 2 items/entries (115 values); level 2: depth <= 2
	with <= 3 items/entries plus depth <= 3 chains (<= 1 item/entry per container)"""
	def gen(depth, arity):
		if depth == 0:
			return ["s"]
		sub = gen(depth - 1, arity)
		out = ["s"]
		for kind in ("arr", "obj"):
			for n in range(arity + 1):
				out += [(kind, x) for x in itertools.product(sub, repeat=n)]
		return out
	if level <= 1:
		return gen(2, 2)
	return gen(2, 3) + [x for x in gen(3, 1) if x not in ("s",)]


def frag_json(v, ctr=None):
	"""compact JSON text of a shape; scalars are the numbers 0, 1, .. and keys "k0", "k1", .. in
	document order, so that every fragment has a distinct rendering (up to empty containers)"""
	ctr = ctr if ctr is not None else {"s": 0, "k": 0}
	if v == "s":
		ctr["s"] += 1
		return str(ctr["s"] - 1)
	if v[0] == "arr":
		return "[" + ",".join(frag_json(c, ctr) for c in v[1]) + "]"
	parts = []
	for c in v[1]:
		ctr["k"] += 1
		parts.append('"k%d":' % (ctr["k"] - 1) + frag_json(c, ctr))
	return "{" + ",".join(parts) + "}"


def replay_fragments(native, text, index=None):
	"""get_fragment(i) for i = 0..total+2 (and `index`), traverse() and volume() of the REAL parsed
	value, against the pre-order definition computed here from the text (a fragment is rendered as
	its kind and its compact text / key)"""
	import subprocess

	p = subprocess.run([native, "frag", text] + ([str(index)] if index is not None else []), stdout=subprocess.PIPE, stderr=subprocess.DEVNULL, timeout=60)
	got = p.stdout.decode(errors="replace").strip()

	def walk(t, i, out):
		start = i
		slot = len(out)
		out.append(None)
		if t[i] == "[":
			i += 1
			while t[i] != "]":
				if t[i] == ",":
					i += 1
				i = walk(t, i, out)
			i += 1
		elif t[i] == "{":
			i += 1
			while t[i] != "}":
				if t[i] == ",":
					i += 1
				j = t.index(":", i)
				key = t[i + 1 : j - 1]
				out.append("E" + key)
				out.append("K" + key)
				i = walk(t, j + 1, out)
			i += 1
		else:
			while i < len(t) and t[i] not in ",]}":
				i += 1
		out[slot] = "V" + t[start:i]
		return i

	kinds = []
	walk(text, 0, kinds)
	total = len(kinds)
	idx = list(range(total + 3)) + ([index] if index is not None else [])
	want = "G " + " ".join(("%d=%s" % (i, kinds[i])) if i < total else ("%d=Err%d" % (i, i - total)) for i in idx)
	want += " T " + " ".join("%d=%s" % (i, k) for i, k in enumerate(kinds)) + " N %d" % sum(1 for k in kinds if k[0] == "V")
	return dict(value=text, index=index, got=got, want=want, reproduced=(got != want))


def CONV_KIND(v):
	return "Array" if isinstance(v, tuple) else {"t": "Boolean", "f": "Boolean", "n": "Null"}[v]


def conv_volume(v):
	return 1 + sum(conv_volume(c) for c in v[1]) if isinstance(v, tuple) else 1


def conv_json(v):
	return "[" + ",".join(conv_json(c) for c in v[1]) + "]" if isinstance(v, tuple) else {"t": "true", "f": "false", "n": "null"}[v]


def conv_values(n_max):
	"""[(nesting depth of the target type, values)]: depth 1 = Vec<bool>: scalars and arrays of <= n_max
	items from {true, false, null, [null]}; depth 2 = Vec<Vec<bool>>: arrays of <= min(n_max, 3) items, each null,
	true or an array of <= 2 items from {true, null, [null]}"""
	A1 = ("arr", ("n",))
	d1 = ["t", "n"] + [("arr", x) for n in range(n_max + 1) for x in itertools.product(["t", "f", "n", A1], repeat=n)]
	inner = ["n", "t"] + [("arr", x) for n in range(3) for x in itertools.product(["t", "n", A1], repeat=n)]
	d2 = [("arr", x) for n in range(min(n_max, 3) + 1) for x in itertools.product(inner, repeat=n)]
	return [(1, d1), (2, d2)]


def conv_expected(v, off, depth):
	if depth == 0:
		return ("Ok", v == "t") if v in ("t", "f") else ("Err", off, "BOOLEAN", CONV_KIND(v))
	if not isinstance(v, tuple):
		return ("Err", off, "ARRAY", CONV_KIND(v))
	at = off + 1
	acc = []
	for c in v[1]:
		r = conv_expected(c, at, depth - 1)
		if r[0] == "Err":
			return r
		acc.append(r[1])
		at += conv_volume(c)
	return ("Ok", acc)


def replay_convert_map(native, kind, shape, keyvals):
	"""BTreeMap::<String, bool>::try_from_json_at on the REAL value and code map of the parsed document
	[[0],V] (V at offset 3), keys instantiated with the solver's model, against the oracle"""
	import subprocess

	ITEM = {"t": "true", "f": "false", "n": "null", "a": "[null]"}
	KIND = {"t": "Boolean", "f": "Boolean", "n": "Null", "a": "Array"}
	if kind == "top":
		text = ITEM[shape]
		want = "ERR 3 OBJECT %s" % KIND[shape]
	else:
		keys = [chr(keyvals[i] if i < len(keyvals) else 0x41 + i) for i in range(len(shape))]
		text = "{" + ",".join("%s:%s" % (json.dumps(k), ITEM[c]) for k, c in zip(keys, shape)) + "}"
		at = 4
		want = None
		m = {}
		for k, c in zip(keys, shape):
			if c not in "tf":
				want = "ERR %d BOOLEAN %s" % (at + 2, KIND[c])
				break
			m[k] = (c == "t")
			at += 2 + (2 if c == "a" else 1)
		if want is None:
			want = ("OK " + ",".join("%s=%s" % (k, str(v).lower()) for k, v in sorted(m.items()))).strip()
	p = subprocess.run([native, "convmap", text], stdout=subprocess.PIPE, stderr=subprocess.DEVNULL, timeout=60)
	got = p.stdout.decode(errors="replace").strip()
	return dict(depth="map", value=text, kind=kind, shape=shape, got=got, want=want, reproduced=(got != want))


def replay_convert(native, depth, text):
	"""Vec::<bool> / Vec::<Vec<bool>>::try_from_json_at on the REAL value and REAL code map of the
	parsed document [[0],V] (V at offset 3), against the recursive oracle"""
	import subprocess

	p = subprocess.run([native, "convert", str(depth), text], stdout=subprocess.PIPE, stderr=subprocess.DEVNULL, timeout=60)
	got = p.stdout.decode(errors="replace").strip()

	def parse(t, i=0):
		if t[i] == "[":
			items = []
			i += 1
			while t[i] != "]":
				if t[i] == ",":
					i += 1
				c, i = parse(t, i)
				items.append(c)
			return ("arr", tuple(items)), i + 1
		for w, k in (("true", "t"), ("false", "f"), ("null", "n")):
			if t.startswith(w, i):
				return k, i + len(w)
		raise ValueError(t[i:])

	def dbg(x):
		return "[" + ", ".join(dbg(c) for c in x) + "]" if isinstance(x, list) else ("true" if x else "false")

	v, _ = parse(text)
	w = conv_expected(v, 3, depth)
	want = "OK " + dbg(w[1]) if w[0] == "Ok" else "ERR %d %s %s" % (w[1], w[2], w[3])
	return dict(depth=depth, value=text, got=got, want=want, reproduced=(got != want))


def replay_nested(native, X, Y, keyvals):
	"""Value::unordered_eq of two concrete nested values (keys instantiated with the solver's model,
	numbered in construction order: children before their entry's key, A before B) on the REAL values
	parsed from text, against the recursive definition"""
	import subprocess

	ctr = {"k": 0}

	def conc(v):
		if v in ("t", "f"):
			return v == "t"
		if v[0] == "arr":
			return ("arr", [conc(c) for c in v[1]])
		ents = []
		for c in v[1]:
			inner = conc(c)
			k = keyvals[ctr["k"]] if ctr["k"] < len(keyvals) else 0x41 + ctr["k"]
			ctr["k"] += 1
			ents.append((k, inner))
		return ("obj", ents)

	def text(v):
		if isinstance(v, bool):
			return "true" if v else "false"
		if v[0] == "arr":
			return "[" + ",".join(text(c) for c in v[1]) + "]"
		return "{" + ",".join("%s:%s" % (json.dumps(chr(k)), text(c)) for k, c in v[1]) + "}"

	def ueq(a, b):
		if isinstance(a, bool) or isinstance(b, bool):
			return isinstance(a, bool) and isinstance(b, bool) and a == b
		if a[0] != b[0] or len(a[1]) != len(b[1]):
			return False
		if a[0] == "arr":
			return all(ueq(x, y) for x, y in zip(a[1], b[1]))
		free = list(range(len(b[1])))
		for k, v in a[1]:
			j = next((j for j in free if b[1][j][0] == k and ueq(v, b[1][j][1])), None)
			if j is None:
				return False
			free.remove(j)
		return True

	a, b = conc(X), conc(Y)
	ta, tb = text(a), text(b)
	p = subprocess.run([native, "unordn", ta, tb], stdout=subprocess.PIPE, stderr=subprocess.DEVNULL, timeout=60)
	got = p.stdout.decode(errors="replace").strip()
	w = str(ueq(a, b)).lower()
	return dict(a=ta, b=tb, got=got, want="%s %s" % (w, w), reproduced=(got != "%s %s" % (w, w)))


def replay_unordered(native, A, B, keyvals):
	"""unordered_eq of two concrete objects on the REAL Object, against the permutation criterion"""
	import subprocess

	name = lambda k: chr(keyvals[k])
	a = ["%s=%d" % (name(k), v) for k, v in A]
	b = ["%s=%d" % (name(k), v) for k, v in B]
	p = subprocess.run([native, "unord", ",".join(a), ",".join(b)], stdout=subprocess.PIPE, stderr=subprocess.DEVNULL, timeout=60)
	got = p.stdout.decode(errors="replace").strip()
	want = "%s %s" % (str(sorted(a) == sorted(b)).lower(), str(sorted(a) == sorted(b)).lower())
	return dict(a=a, b=b, got=got, want=want, reproduced=(got != want))


def main():
	ap = argparse.ArgumentParser()
	ap.add_argument("--repo", default="/repo")
	ap.add_argument("--out", default=None)
	ap.add_argument("--build", default=os.path.join(HERE, "..", ".build", "obj"))
	ap.add_argument("--depth", type=int, default=3)
	ap.add_argument("--unordered", type=int, default=-1, help="C15 mode: pairs of objects of <= this many entries")
	ap.add_argument("--mapped", type=int, default=-1, help="C11 mode: mapped lookups on objects of <= this many entries")
	ap.add_argument("--unordered-nested", type=int, default=-1, help="C15 mode: Value::unordered_eq on pairs of nested values (level 1 or 2)")
	ap.add_argument("--canon-nested", type=int, default=-1, help="C09/C10 mode: Value::canonicalize_with on nested values with symbolic keys (level 1 or 2)")
	ap.add_argument("--fragments", type=int, default=-1, help="C11 mode: fragment lookup with a symbolic index / traversal / volume on nested values (level 1 or 2)")
	ap.add_argument("--convert", type=int, default=-1, help="C11 mode: Vec<bool>::try_from_json_at on arrays of <= this many items")
	ap.add_argument("--budget", type=float, default=0)
	ap.add_argument("--mir", default=None)
	a = ap.parse_args()
	os.makedirs(a.build, exist_ok=True)
	out = dict(ok=False, violations=[], error=None)
	t0 = time.time()
	try:
		text, dt = (open(a.mir).read(), 0.0) if a.mir else drvcheck.dump_mir(a.repo, a.build, features="canonicalize")
		out["mir_dump_s"] = round(dt, 1)
		ex = Explorer(a.repo, text)
		out["functions_encoded"] = ex.prog.encoded()
		if a.canon_nested >= 0:
			ex.with_content = False
			ex.explore_canon_nested(a.canon_nested, a.budget)
			native = drvcheck.build_native(a.repo, a.build)
			bad = []
			nval = 0
			for shape in canon_shapes(1):
				for kv in ([0x62, 0x61, 0x10000, 0xFFFF, 0x61, 0x62, 0x63, 0x64], [0x61] * 8):
					r = replay_canon(native, shape, kv)
					nval += 1
					if r["reproduced"]:
						bad.append(r)
						if not ex.violations and len(bad) <= 3:
							# the REAL code breaks the property on a concrete validation input although the
							# interpreter + models pass it (a blind spot of a model, e.g. the index model files
							# buckets by position only): a reproduced violation all the same — reported as such,
							# and marked as found by the validation replay, not by the solver
							bad[-1]["from_validation"] = True
			out["translator_validation"] = dict(values=nval, disagreements=bad[:3])
			if bad and not ex.violations:
				for r in bad[:3]:
					ex.violations.append(dict(label="C10:real-canonicalize-breaks-the-property-on-a-validation-input", detail="%s (found by the native validation replay; the interpreter passes this value)" % r["why"],
					                          history=[["canonicalize_nested", [r["value"]]]], keys=r["keys"], key_decisions=[], shape=r["shape"], native=r))
				bad = []
			for v in ex.violations:
				kv = list(v.get("keys") or [])
				while len(kv) < 16:
					kv.append(0x41 + len(kv))
				v["native"] = replay_canon(native, v["shape"], kv)
			if bad and not ex.violations:
				raise MirError("translator validation failed: the real canonicalize() is not canonical on a value the interpreter passes: %s" % json.dumps(bad[0]))
			out.update(level=a.canon_nested, pairs=ex.pairs, histories=ex.pairs, operations_run=ex.ops_run, mir_steps=ex.ip.stats["steps"], solver_queries=ex.keys.queries,
			           solver_time_s=round(ex.keys.solver_time, 2), key_variables=len(ex.keys.vars), wall_s=round(time.time() - t0, 1), timed_out=ex.timed_out, violations=ex.violations)
			out["ok"] = True
			log("canonicalize on nested values, level %d: %d (value, key-relation) cases, %d solver queries, %.1fs%s, %d violation(s)" % (a.canon_nested, ex.pairs, ex.keys.queries, time.time() - t0, " TIMED OUT" if ex.timed_out else "", len(ex.violations)))
			if a.out:
				json.dump(out, open(a.out, "w"), indent=1, default=str)
			else:
				print(json.dumps(out, indent=1, default=str)[:4000])
			return 0
		if a.unordered_nested >= 0:
			ex.with_content = False
			ex.explore_unordered_nested(a.unordered_nested, a.budget)
			native = drvcheck.build_native(a.repo, a.build)
			for v in ex.violations:
				kv = list(v.get("keys") or [])
				while len(kv) < 16:
					kv.append(0x41 + len(kv))
				v["native"] = replay_nested(native, v["shapes"][0], v["shapes"][1], kv)
			out.update(level=a.unordered_nested, pairs=ex.pairs, histories=ex.pairs, operations_run=ex.ops_run, mir_steps=ex.ip.stats["steps"], solver_queries=ex.keys.queries,
			           solver_time_s=round(ex.keys.solver_time, 2), key_variables=len(ex.keys.vars), wall_s=round(time.time() - t0, 1), timed_out=ex.timed_out, violations=ex.violations)
			out["ok"] = True
			log("unordered_eq on nested values, level %d: %d (pair, key-relation) cases, %d solver queries, %.1fs%s, %d violation(s)" % (a.unordered_nested, ex.pairs, ex.keys.queries, time.time() - t0, " TIMED OUT" if ex.timed_out else "", len(ex.violations)))
			if a.out:
				json.dump(out, open(a.out, "w"), indent=1, default=str)
			else:
				print(json.dumps(out, indent=1, default=str)[:4000])
			return 0
		if a.fragments >= 0:
			ex.with_content = False
			ex.explore_fragments(a.fragments, a.budget)
			native = drvcheck.build_native(a.repo, a.build)
			bad = []
			nval = 0
			for shape in frag_shapes(1):
				r = replay_fragments(native, frag_json(shape))
				nval += 1
				if r["reproduced"]:
					bad.append(r)
			out["translator_validation"] = dict(values=nval, disagreements=bad[:3])
			for v in ex.violations:
				idx = [h[1] for h in v["history"] if h[0] == "index"]
				v["native"] = replay_fragments(native, v["history"][0][1][0], int(idx[0]) if idx and str(idx[0]).isdigit() else None)
			if bad and not ex.violations:
				raise MirError("translator validation failed: the real value deviates from the pre-order definition on a value the interpreter passes: %s" % json.dumps(bad[0]))
			out.update(level=a.fragments, pairs=ex.pairs, histories=ex.pairs, operations_run=ex.ops_run, mir_steps=ex.ip.stats["steps"], solver_queries=ex.keys.queries,
			           solver_time_s=round(ex.keys.solver_time, 2), key_variables=len(ex.keys.vars), wall_s=round(time.time() - t0, 1), timed_out=ex.timed_out, violations=ex.violations)
			out["ok"] = True
			log("fragment lookup / traversal / volume, level %d: %d paths and iterator steps checked, %d solver queries, %.1fs, %d violation(s)" % (a.fragments, ex.pairs, ex.keys.queries, time.time() - t0, len(ex.violations)))
			if a.out:
				json.dump(out, open(a.out, "w"), indent=1, default=str)
			else:
				print(json.dumps(out, indent=1, default=str)[:4000])
			return 0
		if a.convert >= 0:
			ex.with_content = False
			ex.explore_convert(a.convert, a.budget)
			native = drvcheck.build_native(a.repo, a.build)
			# translator validation: the values of the quick bound on the real code, against the same oracle
			bad = []
			nval = 0
			for depth, vals in conv_values(min(a.convert, 2)):
				for v in vals:
					r = replay_convert(native, depth, conv_json(v))
					nval += 1
					if r["reproduced"]:
						bad.append(r)
			out["translator_validation"] = dict(values=nval, disagreements=bad[:3])
			for kind, shape in [("top", "t"), ("top", "n")] + [("obj", "".join(x)) for n in range(3) for x in itertools.product("tfna", repeat=n)]:
				for kv in ([0x61, 0x62], [0x61, 0x61]):
					r = replay_convert_map(native, kind, shape, kv)
					nval += 1
					if r["reproduced"]:
						bad.append(r)
			out["translator_validation"] = dict(values=nval, disagreements=bad[:3])
			for v in ex.violations:
				if str(v["history"][0][0]).startswith("BTreeMap"):
					kind, shape = v["history"][0][1]
					kv = list(v.get("keys") or [])
					v["native"] = replay_convert_map(native, kind, shape, kv)
					continue
				depth, text = v["history"][0][1]
				v["native"] = replay_convert(native, depth, text)
			if bad and not ex.violations:
				raise MirError("translator validation failed: the real conversion deviates from the oracle on a value the interpreter passes: %s" % json.dumps(bad[0]))
			out.update(max_items=a.convert, pairs=ex.pairs, histories=ex.pairs, operations_run=ex.ops_run, mir_steps=ex.ip.stats["steps"], solver_queries=ex.keys.queries,
			           solver_time_s=round(ex.keys.solver_time, 2), key_variables=len(ex.keys.vars), wall_s=round(time.time() - t0, 1), timed_out=ex.timed_out, violations=ex.violations)
			out["ok"] = True
			log("Vec<bool>::try_from_json_at, arrays of <= %d items: %d values converted, %d solver queries, %.1fs, %d violation(s)" % (a.convert, ex.pairs, ex.keys.queries, time.time() - t0, len(ex.violations)))
			if a.out:
				json.dump(out, open(a.out, "w"), indent=1, default=str)
			else:
				print(json.dumps(out, indent=1, default=str)[:4000])
			return 0
		if a.mapped >= 0:
			ex.with_content = False
			ex.explore_mapped(a.mapped, a.budget)
			native = drvcheck.build_native(a.repo, a.build)
			for v in ex.violations:
				kv = list(v.get("keys") or [])
				while len(kv) < 8:
					kv.append(0x41 + len(kv))
				model, q = v["history"][0][1]
				v["native"] = replay_mapped(native, [tuple(e) for e in model], int(str(q).split("k")[-1]), kv)
			out.update(max_entries=a.mapped, pairs=ex.pairs, histories=ex.pairs, operations_run=ex.ops_run, mir_steps=ex.ip.stats["steps"], solver_queries=ex.keys.queries,
			           solver_time_s=round(ex.keys.solver_time, 2), key_variables=len(ex.keys.vars), wall_s=round(time.time() - t0, 1), timed_out=False, violations=ex.violations)
			out["ok"] = True
			log("mapped lookups, objects of <= %d entries: %d iterator steps checked, %d solver queries, %.1fs, %d violation(s)" % (a.mapped, ex.pairs, ex.keys.queries, time.time() - t0, len(ex.violations)))
			if a.out:
				json.dump(out, open(a.out, "w"), indent=1, default=str)
			else:
				print(json.dumps(out, indent=1, default=str)[:4000])
			return 0
		if a.unordered >= 0:
			ex.with_content = False
			ex.explore_unordered(a.unordered, a.budget)
			native = drvcheck.build_native(a.repo, a.build)
			for v in ex.violations:
				kv = list(v.get("keys") or [])
				while len(kv) < 8:
					kv.append(0x41 + len(kv))
				A, B = v["history"][0][1]
				v["native"] = replay_unordered(native, A, B, kv)
			out.update(max_entries=a.unordered, pairs=ex.pairs, histories=ex.pairs, operations_run=ex.ops_run, mir_steps=ex.ip.stats["steps"], solver_queries=ex.keys.queries,
			           solver_time_s=round(ex.keys.solver_time, 2), key_variables=len(ex.keys.vars), wall_s=round(time.time() - t0, 1), timed_out=False, violations=ex.violations)
			out["ok"] = True
			log("unordered_eq, objects of <= %d entries: %d (pair, key-relation) cases, %d solver queries, %.1fs, %d violation(s)" % (a.unordered, ex.pairs, ex.keys.queries, time.time() - t0, len(ex.violations)))
			if a.out:
				json.dump(out, open(a.out, "w"), indent=1, default=str)
			else:
				print(json.dumps(out, indent=1, default=str)[:4000])
			return 0
		ex.pair_law_depth = 3
		ex.explore(a.depth, a.budget)
		native = drvcheck.build_native(a.repo, a.build)
		# translator validation: completed symbolic histories, instantiated with the solver's keys,
		# on the REAL Object (the interpreter's state equals the list model on them, so agreement
		# of the real Object with the list model means interpreter + models reproduce the real code)
		bad = []
		for hist, kv in ex.samples:
			while len(kv) < 8:
				kv.append(0x41 + len(kv))
			r = replay_history(native, hist, kv)
			if r["reproduced"]:
				r["history"], r["keys"] = hist, list(kv)
				bad.append(r)
		out["translator_validation"] = dict(histories=len(ex.samples), disagreements=bad[:3])
		out["sample_histories"] = [" ".join(concrete_ops(h, kv + [0x41 + i for i in range(8)])) for h, kv in ex.samples[:5]]
		for v in ex.violations:
			kv = list(v.get("keys") or [])
			while len(kv) < 8:
				kv.append(0x41 + len(kv))
			v["native"] = replay_history(native, v["history"], kv)
		if bad and not ex.violations:
			# the REAL Object deviates from the list model on a concrete sampled history that the interpreter +
			# models pass (a blind spot of a model): a reproduced violation all the same, marked as found by
			# the validation replay rather than by the solver
			for r in bad[:3]:
				ex.violations.append(dict(label="C06:real-object-deviates-from-the-list-model-on-a-validation-history", detail="first deviation at operation %s (found by the native validation replay; the interpreter passes this history)" % r.get("first_deviation"),
				                          history=r["history"], keys=r["keys"], key_decisions=[], native=r))
		out.update(depth=a.depth, histories=ex.paths, operations_run=ex.ops_run, mir_steps=ex.ip.stats["steps"], solver_queries=ex.keys.queries,
		           solver_time_s=round(ex.keys.solver_time, 2), key_variables=len(ex.keys.vars), wall_s=round(time.time() - t0, 1), timed_out=ex.timed_out,
		           violations=ex.violations)
		out["ok"] = True
		log("depth %d: %d complete histories, %d operations interpreted, %d solver queries, %.1fs%s, %d violation(s)" % (
			a.depth, ex.paths, ex.ops_run, ex.keys.queries, time.time() - t0, " TIMED OUT" if ex.timed_out else "", len(ex.violations)))
	except MirError as e:
		out["error"] = str(e)
		log("ERROR:", e)
	if a.out:
		json.dump(out, open(a.out, "w"), indent=1, default=str)
	else:
		print(json.dumps(out, indent=1, default=str)[:6000])
	return 0 if out["ok"] else 2


if __name__ == "__main__":
	sys.exit(main())
