#!/usr/bin/env python3
"""
drvcheck.py — decides, for every character array up to a bound, that the
driver loop of the parser (src/parse/value.rs, taken from the compiler's MIR of
the CURRENT tree) composed with the contract models of its callees behaves like
the reference pushdown recogniser: verdict, error offset/character, value tree,
complete code map, single pass.

usage: drvcheck.py --repo /repo --out result.json [--max-n N] [--alphabet full|struct] [--budget SECONDS]
                   [--concrete TEXT]            (development: one concrete document)

Output (JSON): per N the number of paths, forks, solver queries, solver time;
`violations`: [{label, detail, chars, text_hex, native}] — each counter-example
is replayed against the REAL parser (native helper, Value::parse_str) and kept
only if the real parser deviates from the reference on it.
"""
import argparse
import json
import os
import re
import shutil
import subprocess
import sys
import time

HERE = os.path.dirname(os.path.realpath(__file__))
sys.path.insert(0, HERE)

import z3  # noqa: E402

import mirx  # noqa: E402
from mirx import Agg, Frame, MirError, Ref, State  # noqa: E402
import driver  # noqa: E402


def log(*a):
	print(*a, file=sys.stderr, flush=True)


def dump_mir(repo, build, features=None):
	"""MIR of the library crate of `repo`, compiled now (fresh target dir: cargo would not re-run rustc otherwise)"""
	tdir = os.path.join(build, "mir-target")
	shutil.rmtree(tdir, ignore_errors=True)
	env = dict(os.environ)
	env["CARGO_NET_OFFLINE"] = "true"
	env["CARGO_TARGET_DIR"] = tdir
	env.pop("RUSTFLAGS", None)
	t0 = time.time()
	p = subprocess.run(["cargo", "+nightly", "rustc", "--offline", "--lib"] + (["--features", features] if features else []) + ["--", "-Zunpretty=mir", "-C", "debug-assertions=off"],
	                   cwd=repo, env=env, stdout=subprocess.PIPE, stderr=subprocess.PIPE, timeout=900)
	shutil.rmtree(tdir, ignore_errors=True)
	if p.returncode != 0:
		raise MirError("MIR dump failed: " + p.stderr.decode(errors="replace")[-2000:])
	return p.stdout.decode(), time.time() - t0


class Program:
	"""the functions of src/parse/value.rs located in the MIR dump"""

	def __init__(self, fns):
		self.fns = fns
		self.by = {}
		for f in fns:
			h = f.header
			if "value.rs" not in h and not h.startswith("stack_context"):
				continue
			if re.search(r"::parse_in\(", h) and "Result<Meta<Value, usize>" in h:
				self.by["driver"] = f
			elif re.search(r"::parse_in\(", h) and "Result<Meta<Fragment, usize>" in h:
				self.by["fragment"] = f
			elif "::value_or_parse(" in h:
				self.by["value_or_parse"] = f
			elif h.startswith("stack_context("):
				self.by["stack_context"] = f
			elif re.search(r"::from\(_1: Value\) -> Fragment", h):
				self.by["from"] = f
			elif "{closure#" in h:
				self.by.setdefault("closures", []).append(f)
		for k in ("driver", "fragment", "value_or_parse", "stack_context"):
			if k not in self.by:
				raise MirError("function `%s` of src/parse/value.rs not found in the MIR dump" % k)

	def resolve(self, callee, raw, args):
		if callee == "Fragment::value_or_parse":
			return self.by["value_or_parse"]
		if callee == "<Fragment as Parse>::parse_in":
			return self.by["fragment"]
		if callee == "stack_context":
			return self.by["stack_context"]
		if callee == "@from":
			return self.by.get("from")
		if callee == "@closure":
			path, _, parent = str(raw).partition("@@")
			cands = [f for f in self.by.get("closures", []) if path in f.header]
			if parent and len(cands) > 1:
				# macro-generated impls share source locations: the closure of a function is the
				# first matching closure that FOLLOWS it in the dump
				pos = {id(f): k for k, f in enumerate(self.fns)}
				after = [f for f in cands if pos.get(id(f), -1) > int(parent)]
				if after:
					return min(after, key=lambda f: pos[id(f)])
			return cands[0] if cands else None
		return None

	def encoded(self):
		out = []
		for k in ("driver", "fragment", "value_or_parse", "stack_context", "from"):
			if k in self.by:
				f = self.by[k]
				out.append("%s (%d basic blocks)" % (f.header.split("(")[0], len(f.blocks)))
		for f in self.by.get("closures", []):
			out.append(f.header.split("(")[0])
		return out


def position_field(repo):
	"""index of `position` among the fields of `struct Parser` (MIR field numbers follow declaration order)"""
	t = open(os.path.join(repo, "src", "parse", "mod.rs")).read()
	t = re.sub(r"//[^\n]*", "", t)
	m = re.search(r"pub struct Parser<[^{]*\{", t)
	k = mirx.match_close(t, m.end() - 1)
	names = [re.match(r"\s*(?:pub(?:\([^)]*\))?\s+)?(\w+)\s*:", p).group(1) for p in mirx.split_top(t[m.end():k]) if p.strip()]
	return names.index("position")


def enums(repo):
	src = os.path.join(repo, "src")
	e = mirx.enums_from_source([os.path.join(src, "lib.rs"), os.path.join(src, "parse", "mod.rs"), os.path.join(src, "parse", "value.rs")])
	for stem in ("array", "object"):
		for k, v in mirx.enums_from_source([os.path.join(src, "parse", stem + ".rs")]).items():
			e["%s::%s" % (stem, k)] = v
	return e


# Concrete viable prefixes that put the stack machine into its deeper configurations
# (second and later entries, containers as entry values, nesting three deep, the
# key context after a comma, items after a nested container has been closed):
PREFIXES = ['{"":1,', '{"a":[', '{"a":{', '{"a":{"b":1}', '{"a":[1]', '[[', '[[1],', '[{"a":', '[{"a":1}', '[1,2,',
            '{"a":1,"b":', '{"a":1,"b":2,', '[[[', '{"a":{"b":{', '[1,[2,{"k":', ' [ 1 , ', '{ "a" : 1 , ', '{"a":[{"b":[', '{"a":1,"a":', '{"a":1,"b":2,"a":']

STRUCT = [ord(x) for x in '[]{},:" 1-nulatrefs.0E+\n']


def explore(prog, repo, n, alphabet, budget, concrete=None, prefix=""):
	"""all documents `prefix` + n symbolic characters (prefix concrete)"""
	t0 = time.time()
	if concrete is not None:
		chars = [ord(c) for c in concrete]
		sym = mirx.Symbolic(0)
	else:
		sym = mirx.Symbolic(n, excluded=(ord("\\"),), allowed=(STRUCT + [0xE9, 0x1F600]) if alphabet == "struct" else None)
		chars = [ord(c) for c in prefix] + sym.chars
	models = driver.Models(sym, chars, position_field(repo))
	ip = mirx.Interp(prog.fns, enums(repo), sym, models.table(), prog.resolve)
	st = State()
	root = Frame(None, {1: driver.parser_val(0, 0, ())})
	st.frames.append(root)
	drv = prog.by["driver"]
	ctx = Agg("Context", "None", ())
	st.frames.append(Frame(drv, {drv.params[0]: Ref(0, 1, ()), drv.params[1]: ctx}, 0, 0, mirx.Place(2, []), 0))
	violations = []
	paths = 0
	accepted = 0
	timed_out = False
	covered = 0
	examples = []
	for fin in ip.run(st):
		paths += 1
		if concrete is None:
			covered += sym.count(fin)
		parser = fin.aux["root"][1]
		res = fin.result
		if res.variant == "Ok":
			accepted += 1
			if concrete is None and len(examples) < 3:
				m_ = sym.model(fin)
				if m_ is not None:
					examples.append("".join(chr(c) for c in [ord(c) for c in prefix] + m_))
		for label, detail, s in driver.compare(models, fin, res, parser):
			# a few counter-examples PER LABEL (a violation of one property must not hide another's)
			if sum(1 for v in violations if v["label"] == label) >= 3:
				continue
			cex = chars if concrete is not None else [ord(c) for c in prefix] + sym.model(s)
			violations.append(dict(label=label, detail=detail, chars=cex))
		if budget and time.time() - t0 > budget:
			timed_out = True
			break
	total = (sym.alphabet_size() ** n) if concrete is None else 1
	complete = (concrete is not None) or timed_out or covered == total
	if not complete:
		raise MirError("path partition incomplete: paths cover %d of %d inputs" % (covered, total))
	return dict(n=n, prefix=prefix, alphabet=alphabet, accepted_examples=examples, inputs_covered=str(covered), inputs_total=str(total), paths=paths, accepted_paths=accepted, forks=ip.stats["forks"], mir_steps=ip.stats["steps"],
	            solver_queries=sym.queries, solver_time_s=round(sym.solver_time, 2), wall_s=round(time.time() - t0, 2),
	            timed_out=timed_out, violations=violations), models


# ---------------------------------------------------------------------------
# native replay


def build_native(repo, build):
	d = os.path.join(build, "native")
	shutil.rmtree(d, ignore_errors=True)
	shutil.copytree(os.path.join(HERE, "native"), d, ignore=shutil.ignore_patterns("target", "Cargo.lock"))
	ct = os.path.join(d, "Cargo.toml")
	t = open(ct).read().replace('path = "/repo"', 'path = "%s"' % os.path.realpath(repo))
	open(ct, "w").write(t)
	lock = os.path.join(repo, "Cargo.lock")
	if os.path.exists(lock):
		shutil.copyfile(lock, os.path.join(d, "Cargo.lock"))
	env = dict(os.environ)
	env["CARGO_NET_OFFLINE"] = "true"
	env.pop("RUSTFLAGS", None)
	env["CARGO_TARGET_DIR"] = os.path.join(d, "target")
	p = subprocess.run(["cargo", "build", "--offline", "--release", "-q"], cwd=d, env=env, stdout=subprocess.PIPE, stderr=subprocess.STDOUT, timeout=900)
	if p.returncode != 0:
		raise MirError("native helper build failed: " + p.stdout.decode(errors="replace")[-1500:])
	return os.path.join(d, "target", "release", "jsv-native")


def expected_native(chars):
	"""what the real parser must print for this concrete document, per the reference"""
	sym = mirx.Symbolic(0)
	m = driver.Models(sym, list(chars), 0)
	outs = driver.reference(m, State())
	assert len(outs) == 1
	want = outs[0][1]
	text = "".join(chr(c) for c in chars)
	off = [0]
	for ch in text:
		off.append(off[-1] + len(ch.encode("utf-8")))
	if not want.ok:
		if want.err_eof:
			return "ERR Unexpected %d None" % off[want.err]
		return "ERR Unexpected %d %d" % (off[want.err], chars[want.err])

	def dump(v):
		if v.variant == "Null":
			return "null"
		if v.variant == "Boolean":
			return "true" if v.fields[0] else "false"
		if v.variant == "Number":
			_, s, e = v.fields[0]
			return "#" + text[s:e]
		if v.variant == "String":
			_, s, e = v.fields[0]
			return "$" + text[s + 1 : e - 1].encode("utf-8").hex()
		if v.variant == "Array":
			return "[" + ",".join(dump(x) for x in v.fields[0][1]) + "]"
		return "{" + ",".join("$" + text[k[1] + 1 : k[2] - 1].encode("utf-8").hex() + ":" + dump(x) for k, x in v.fields[0][1]) + "}"

	cm = ";".join("%d-%d-%d" % (off[s], off[e], v) for s, e, v in want.cmap)
	return "OK %s %s" % (cm, dump(want.value))


def format_impl(chars, result, parser):
	"""the implementation-side result (MIR + contract models) in the native helper's output format"""
	text = "".join(chr(c) for c in chars)
	off = [0]
	for ch in text:
		off.append(off[-1] + len(ch.encode("utf-8")))
	if result.variant == "Err":
		e = result.fields[0]
		if e.variant != "Unexpected":
			return "ERR other"
		pos, oc = e.fields
		return "ERR Unexpected %d %s" % (off[pos], "None" if oc.variant == "None" else str(oc.fields[0]))

	def dump(v):
		if v.variant == "Null":
			return "null"
		if v.variant == "Boolean":
			return "true" if v.fields[0] else "false"
		if v.variant == "Number":
			_, s, e = v.fields[0]
			return "#" + text[s:e]
		if v.variant == "String":
			_, s, e = v.fields[0]
			return "$" + text[s + 1 : e - 1].encode("utf-8").hex()
		if v.variant == "Array":
			return "[" + ",".join(dump(x) for x in v.fields[0][1]) + "]"
		return "{" + ",".join("$" + text[k[1] + 1 : k[2] - 1].encode("utf-8").hex() + ":" + dump(x) for k, x in v.fields[0][1]) + "}"

	cm = ";".join("%d-%d-%d" % (off[s], off[e], v) for s, e, v in parser[3])
	return "OK %s %s" % (cm, dump(result.fields[0].fields[0]))


def validate(prog, repo, build, directory):
	"""translator validation: the repository's own test documents (those without
	escapes) through the MIR interpreter + contract models, against the REAL parser"""
	native = build_native(repo, build)
	docs = []
	for name in sorted(os.listdir(directory)):
		try:
			t = open(os.path.join(directory, name), "rb").read().decode("utf-8")
		except (UnicodeDecodeError, OSError):
			continue
		if "\\" in t or len(t) > 3000 or t.count("[") + t.count("{") > 100 or any(0xD800 <= ord(c) <= 0xDFFF for c in t):
			continue
		docs.append((name, t))
	bad = []
	sym = mirx.Symbolic(0)
	pf = position_field(repo)
	en = enums(repo)
	for k in range(0, len(docs), 40):
		chunk = docs[k : k + 40]
		p = subprocess.run([native] + [t.encode("utf-8").hex() for _, t in chunk], stdout=subprocess.PIPE, stderr=subprocess.STDOUT, timeout=120)
		lines = p.stdout.decode(errors="replace").split("\n")
		for (name, t), got in zip(chunk, lines):
			chars = [ord(c) for c in t]
			models = driver.Models(sym, chars, pf)
			ip = mirx.Interp(prog.fns, en, sym, models.table(), prog.resolve, max_steps=2000000)
			st = State()
			st.frames.append(Frame(None, {1: driver.parser_val(0, 0, ())}))
			drv = prog.by["driver"]
			st.frames.append(Frame(drv, {drv.params[0]: Ref(0, 1, ()), drv.params[1]: Agg("Context", "None", ())}, 0, 0, mirx.Place(2, []), 0))
			fins = list(ip.run(st))
			mine = format_impl(chars, fins[0].result, fins[0].aux["root"][1]) if len(fins) == 1 else "?? %d paths" % len(fins)
			ref = expected_native(chars)
			# faithfulness of the translation: interpreter + models must reproduce the REAL parser
			# (a deviation of both from the reference is a property violation, found and reported
			# by the symbolic exploration, not a translator problem)
			if mine != got.strip():
				bad.append(dict(file=name, real=got.strip()[:300], interpreted=mine[:300], reference=ref[:300]))
	return len(docs), bad


def replay(native, chars):
	text = "".join(chr(c) for c in chars)
	p = subprocess.run([native, text.encode("utf-8").hex()], stdout=subprocess.PIPE, stderr=subprocess.STDOUT, timeout=60)
	got = p.stdout.decode(errors="replace").strip()
	want = expected_native(chars)
	return dict(text=text, got=got, want=want, reproduced=(got != want))


def main():
	ap = argparse.ArgumentParser()
	ap.add_argument("--repo", default="/repo")
	ap.add_argument("--out", default=None)
	ap.add_argument("--build", default=os.path.join(HERE, "..", ".build", "drv"))
	ap.add_argument("--max-n", type=int, default=6)
	ap.add_argument("--prefix-n", type=int, default=0, help="additionally: every concrete prefix of PREFIXES followed by this many symbolic characters")
	ap.add_argument("--budget", type=float, default=0)
	ap.add_argument("--concrete", default=None)
	ap.add_argument("--validate", default=None, help="directory of documents: interpreter + models vs. the real parser (translator validation)")
	ap.add_argument("--no-validate", action="store_true")
	ap.add_argument("--mir", default=None, help="development: use this MIR dump instead of compiling")
	a = ap.parse_args()
	os.makedirs(a.build, exist_ok=True)
	out = dict(ok=False, runs=[], violations=[], error=None)
	try:
		if a.mir:
			text, dt = open(a.mir).read(), 0.0
		else:
			text, dt = dump_mir(a.repo, a.build)
		out["mir_dump_s"] = round(dt, 1)
		prog = Program(mirx.parse_mir(text))
		out["functions_encoded"] = prog.encoded()
		if a.validate:
			n, bad = validate(prog, a.repo, a.build, a.validate)
			print(json.dumps(dict(documents=n, disagreements=bad), indent=1))
			return 0 if not bad else 1
		if a.concrete is not None:
			r, _ = explore(prog, a.repo, len(a.concrete), "concrete", 0, concrete=a.concrete)
			print(json.dumps(r, indent=1, default=str))
			print(expected_native([ord(c) for c in a.concrete]))
			return 0
		# translator validation on every run: the repository's own test documents through
		# MIR interpreter + contract models, against the real parser and the reference
		vdir = os.path.join(a.repo, "tests", "inputs")
		if os.path.isdir(vdir) and not a.no_validate:
			nd, bad = validate(prog, a.repo, a.build, vdir)
			out["translator_validation"] = dict(documents=nd, disagreements=bad[:5])
			log("translator validation: %d documents, %d disagreement(s)" % (nd, len(bad)))
			if bad:
				raise MirError("translator validation failed: MIR interpreter + contract models do not reproduce the real parser on %s" % json.dumps(bad[0]))
		todo = [(n, "full", "") for n in range(0, a.max_n + 1)]
		if a.prefix_n > 0:
			todo += [(a.prefix_n, "full", p) for p in PREFIXES]
		native = None
		t_start = time.time()
		for n, alpha, prefix in todo:
			left = (a.budget - (time.time() - t_start)) if a.budget else 0
			if a.budget and left <= 0:
				out["runs"].append(dict(n=n, prefix=prefix, alphabet=alpha, skipped="time budget exhausted"))
				continue
			r, _ = explore(prog, a.repo, n, alpha, left, prefix=prefix)
			log("prefix %r + N=%d %s: %d paths, %d forks, %d solver queries (%.1fs), %.1fs%s, %d counter-example(s)" % (
				prefix, n, alpha, r["paths"], r["forks"], r["solver_queries"], r["solver_time_s"], r["wall_s"],
				" TIMED OUT" if r["timed_out"] else "", len(r["violations"])))
			vs = r.pop("violations")
			out["runs"].append(r)
			for v in vs:
				if sum(1 for w in out["violations"] if w["label"] == v["label"]) >= 3:
					continue
				if native is None:
					native = build_native(a.repo, a.build)
				v["n"] = n
				v["native"] = replay(native, v["chars"])
				out["violations"].append(v)
		out["ok"] = True
	except MirError as e:
		out["error"] = str(e)
		log("ERROR:", e)
	if a.out:
		json.dump(out, open(a.out, "w"), indent=1, default=str)
	else:
		print(json.dumps(out, indent=1, default=str))
	return 0 if out["ok"] else 2


if __name__ == "__main__":
	sys.exit(main())
