#!/usr/bin/env python3
"""
driver.py — contract models of the driver's callees, the reference pushdown
recogniser for whole documents, and the comparison of the two on every path.

See mirx.py for the technique. Everything here is harness-side:

  models     Parser primitives (peek_char / next_char / skip_whitespaces /
             end_fragment / the `position` field), the eight parser units
             (null, bool, number, string, array start/continue, object
             start/continue) written from the reference automata of the Kani
             unit harnesses, and std/locspan functions (Vec::new/push/pop,
             Option::take, slice::last, Deref, Try::branch,
             FromResidual::from_residual, Meta::map, Meta::cast, Object::new,
             Object::push, Error::unexpected).
  reference  single-pass pushdown recogniser of RFC 8259 written from the
             grammar: verdict, index of the first character after the longest
             viable prefix, value tree, code map (one entry per fragment in
             pre-order: span and volume).

Positions are kept as CHARACTER indices on both sides (the driver never
computes with positions, it only passes them around; that offsets advance by
the source length of each character is decided at unit level by the Kani
harness p0_position_advances_by_source_length).
"""
from mirx import Agg, MirError, NONE, Ref, UNIT, c_or, err, meta, ok, some

# ---------------------------------------------------------------------------
# abstract values of the model types


def parser_val(idx, pulled, cmap):
	return ("parser", idx, pulled, tuple(cmap))


def is_parser(v):
	return isinstance(v, tuple) and not isinstance(v, Agg) and len(v) == 4 and v[0] == "parser"


VEC0 = ("vec", ())
OBJ0 = ("obj", ())


def unexpected(pos, optc):
	return Agg("Error", "Unexpected", (pos, optc))


CONTEXTS = ["None", "Array", "ObjectKey", "ObjectValue"]


class Models:
	"""contract models; `n` characters, `chars` their z3 variables (or ints)"""

	def __init__(self, sym, chars, position_field):
		self.sym = sym
		self.chars = chars
		self.n = len(chars)
		self.position_field = position_field

	# ---- access to the Parser behind a reference
	def load(self, ip, st, ref):
		if not isinstance(ref, Ref):
			raise MirError("expected &mut Parser, got %r" % (ref,))
		v = ip.read_loc(st, (ref[0], ref[1], ref[2]))
		if not is_parser(v):
			raise MirError("expected Parser, got %r" % (v,))
		return v

	def store(self, ip, st, ref, p):
		ip.write_loc(st, (ref[0], ref[1], ref[2]), p)

	def field(self, v, k):
		if is_parser(v) and k == self.position_field:
			return v[1]
		if isinstance(v, tuple) and v and v[0] == "vec" and k == "last" and v[1]:
			return v[1][-1]
		raise MirError("field %r of %r" % (k, v))

	# ---- character helpers
	def is_ws(self, c):
		return c_or(c == 0x20, c == 0x09, c == 0x0A, c == 0x0D)

	def eq(self, c, k):
		return c == k

	def between(self, c, lo, hi):
		if isinstance(c, int):
			return lo <= c <= hi
		return c_or(*[c == k for k in range(lo, hi + 1)])

	def classify(self, st, c, classes):
		"""[(state, name)] — first matching class wins; the last class must be a catch-all (cond True)"""
		out = []
		rest = st
		for name, cond in classes:
			if cond is True:
				out.append((rest, name))
				return out
			sides = self.sym.split(rest, cond)
			nxt = None
			for s2, truth in sides:
				if truth:
					out.append((s2, name))
				else:
					nxt = s2
			if nxt is None:
				return out
			rest = nxt
		return out

	# ---- Parser primitives (operate on a parser VALUE, return [(state, parser, result)])
	def p_peek(self, p):
		_, idx, pulled, cm = p
		if idx < self.n:
			return parser_val(idx, max(pulled, idx + 1), cm), self.chars[idx]
		return p, None

	def p_next(self, p):
		"""(parser', position before, char or None)"""
		_, idx, pulled, cm = p
		if idx < self.n:
			return parser_val(idx + 1, max(pulled, idx + 1), cm), idx, self.chars[idx]
		return p, idx, None

	def p_begin(self, p):
		_, idx, pulled, cm = p
		return parser_val(idx, pulled, cm + ((idx, idx, 0),)), len(cm)

	def p_end(self, p, i):
		_, idx, pulled, cm = p
		if not isinstance(i, int) or i >= len(cm):
			raise MirError("end_fragment(%r) with %d entries" % (i, len(cm)))
		cm = list(cm)
		cm[i] = (cm[i][0], idx, len(cm) - i)
		return parser_val(idx, pulled, cm)

	def p_skip_ws(self, st, p):
		"""[(state, parser)]"""
		out = []
		work = [(st, p)]
		while work:
			s, q = work.pop()
			q2, c = self.p_peek(q)
			if c is None:
				out.append((s, q2))
				continue
			for s2, truth in self.sym.split(s, self.is_ws(c)):
				if truth:
					q3, _, _ = self.p_next(q2)
					work.append((s2, q3))
				else:
					out.append((s2, q2))
		return out

	# ---- models of the Parser methods called by the driver
	def m_skip_whitespaces(self, ip, st, args):
		p = self.load(ip, st, args[0])
		out = []
		for s, q in self.p_skip_ws(st, p):
			self.store(ip, s, args[0], q)
			out.append((s, ok(UNIT)))
		return out

	def m_peek_char(self, ip, st, args):
		p = self.load(ip, st, args[0])
		q, c = self.p_peek(p)
		self.store(ip, st, args[0], q)
		return [(st, ok(NONE if c is None else some(c)))]

	def m_next_char(self, ip, st, args):
		p = self.load(ip, st, args[0])
		q, pos, c = self.p_next(p)
		self.store(ip, st, args[0], q)
		return [(st, ok(Agg("tuple", None, (pos, NONE if c is None else some(c)))))]

	def m_end_fragment(self, ip, st, args):
		p = self.load(ip, st, args[0])
		self.store(ip, st, args[0], self.p_end(p, args[1]))
		return [(st, UNIT)]

	# ---- unit contracts: each returns [(state, parser', Result value)]
	def u_literal(self, st, p, lit, value):
		p, i = self.p_begin(p)
		work = [(st, p, 0)]
		out = []
		while work:
			s, q, k = work.pop()
			if k == len(lit):
				out.append((s, self.p_end(q, i), ok(meta(value, i))))
				continue
			q2, pos, c = self.p_next(q)
			if c is None:
				out.append((s, q2, err(unexpected(pos, NONE))))
				continue
			for s2, truth in self.sym.split(s, self.eq(c, ord(lit[k]))):
				if truth:
					work.append((s2, q2, k + 1))
				else:
					out.append((s2, q2, err(unexpected(pos, some(c)))))
		return out

	def u_null(self, st, p, ctx):
		return self.u_literal(st, p, "null", UNIT)

	def u_bool(self, st, p, ctx):
		_, c = self.p_peek(p)
		if c is None:
			q, i = self.p_begin(p)
			q, pos, _ = self.p_next(q)
			return [(st, q, err(unexpected(pos, NONE)))]
		out = []
		for s, name in self.classify(st, c, [("t", self.eq(c, ord("t"))), ("f", self.eq(c, ord("f"))), ("x", True)]):
			if name == "t":
				out += self.u_literal(s, p, "true", True)
			elif name == "f":
				out += self.u_literal(s, p, "false", False)
			else:
				q, i = self.p_begin(p)
				q, pos, c2 = self.p_next(q)
				out.append((s, q, err(unexpected(pos, some(c2)))))
		return out

	NUM_DFA = [
		# -  0  1-9  .  e  +  other        (255 = no transition)
		[1, 2, 3, 255, 255, 255, 255],
		[255, 2, 3, 255, 255, 255, 255],
		[255, 255, 255, 4, 6, 255, 255],
		[255, 3, 3, 4, 6, 255, 255],
		[255, 5, 5, 255, 255, 255, 255],
		[255, 5, 5, 255, 6, 255, 255],
		[7, 8, 8, 255, 255, 7, 255],
		[255, 8, 8, 255, 255, 255, 255],
		[255, 8, 8, 255, 255, 255, 255],
	]
	NUM_ACCEPTING = [False, False, True, True, False, True, False, False, True]

	def num_classes(self, c):
		return [
			(0, self.eq(c, ord("-"))),
			(1, self.eq(c, ord("0"))),
			(2, self.between(c, ord("1"), ord("9"))),
			(3, self.eq(c, ord("."))),
			(4, c_or(c == ord("e"), c == ord("E"))),
			(5, self.eq(c, ord("+"))),
			(6, True),
		]

	def follows(self, ctx, c):
		ws = self.is_ws(c)
		extra = {"None": [], "Array": [",", "]"], "ObjectKey": [":"], "ObjectValue": [",", "}"]}[ctx]
		return c_or(ws, *[c == ord(x) for x in extra])

	def u_number(self, st, p, ctx):
		p, i = self.p_begin(p)
		start = p[1]
		work = [(st, p, 0)]
		out = []
		while work:
			s, q, state = work.pop()
			q2, c = self.p_peek(q)
			if c is None:
				if self.NUM_ACCEPTING[state]:
					out.append((s, self.p_end(q2, i), ok(meta(("num", start, q2[1]), i))))
				else:
					out.append((s, q2, err(unexpected(q2[1], NONE))))
				continue
			for s2, cls in self.classify(s, c, self.num_classes(c)):
				t = self.NUM_DFA[state][cls]
				if t != 255:
					q3, _, _ = self.p_next(q2)
					work.append((s2, q3, t))
					continue
				if not self.NUM_ACCEPTING[state]:
					out.append((s2, q2, err(unexpected(q2[1], some(c)))))
					continue
				for s3, truth in self.sym.split(s2, self.follows(ctx, c)):
					if truth:
						out.append((s3, self.p_end(q2, i), ok(meta(("num", start, q2[1]), i))))
					else:
						out.append((s3, q2, err(unexpected(q2[1], some(c)))))
		return out

	def u_string(self, st, p, ctx):
		"""strings WITHOUT escapes (the input never contains a backslash: base constraint)"""
		p, i = self.p_begin(p)
		start = p[1]
		q, pos, c = self.p_next(p)
		if c is None:
			return [(st, q, err(unexpected(pos, NONE)))]
		out = []
		work = []
		for s, truth in self.sym.split(st, self.eq(c, ord('"'))):
			if truth:
				work.append((s, q))
			else:
				out.append((s, q, err(unexpected(pos, some(c)))))
		while work:
			s, q = work.pop()
			q2, pos, c = self.p_next(q)
			if c is None:
				out.append((s, q2, err(unexpected(pos, NONE))))
				continue
			for s2, name in self.classify(s, c, [("quote", self.eq(c, ord('"'))), ("bs", self.eq(c, ord("\\"))), ("ctl", c < 0x20), ("raw", True)]):
				if name == "quote":
					out.append((s2, self.p_end(q2, i), ok(meta(("str", start, q2[1]), i))))
				elif name == "bs":
					raise MirError("backslash in input: escapes are outside the driver check")
				elif name == "ctl":
					out.append((s2, q2, err(unexpected(pos, some(c)))))
				else:
					work.append((s2, q2))
		return out

	def u_array_start(self, st, p, ctx):
		p, i = self.p_begin(p)
		q, pos, c = self.p_next(p)
		if c is None:
			return [(st, q, err(unexpected(pos, NONE)))]
		out = []
		for s, truth in self.sym.split(st, self.eq(c, ord("["))):
			if not truth:
				out.append((s, q, err(unexpected(pos, some(c)))))
				continue
			for s2, q2 in self.p_skip_ws(s, q):
				q3, c2 = self.p_peek(q2)
				if c2 is None:
					out.append((s2, q3, ok(meta(Agg("array::StartFragment", "NonEmpty", ()), i))))
					continue
				for s3, t2 in self.sym.split(s2, self.eq(c2, ord("]"))):
					if t2:
						q4, _, _ = self.p_next(q3)
						out.append((s3, self.p_end(q4, i), ok(meta(Agg("array::StartFragment", "Empty", ()), i))))
					else:
						out.append((s3, q3, ok(meta(Agg("array::StartFragment", "NonEmpty", ()), i))))
		return out

	def u_array_continue(self, st, p, arr):
		out = []
		for s, q in self.p_skip_ws(st, p):
			q2, pos, c = self.p_next(q)
			if c is None:
				out.append((s, q2, err(unexpected(pos, NONE))))
				continue
			for s2, name in self.classify(s, c, [("comma", self.eq(c, ord(","))), ("close", self.eq(c, ord("]"))), ("x", True)]):
				if name == "comma":
					out.append((s2, q2, ok(Agg("array::ContinueFragment", "Item", ()))))
				elif name == "close":
					out.append((s2, self.p_end(q2, arr), ok(Agg("array::ContinueFragment", "End", ()))))
				else:
					out.append((s2, q2, err(unexpected(pos, some(c)))))
		return out

	def key_colon(self, st, p, wrap):
		"""e = begin_fragment; key; ws; ':'  ->  wrap(Meta(key, e))"""
		out = []
		p, e = self.p_begin(p)
		for s, q, r in self.u_string(st, p, "ObjectKey"):
			if r.variant == "Err":
				out.append((s, q, r))
				continue
			key = r.fields[0].fields[0]
			for s2, q2 in self.p_skip_ws(s, q):
				q3, pos, c = self.p_next(q2)
				if c is None:
					out.append((s2, q3, err(unexpected(pos, NONE))))
					continue
				for s3, truth in self.sym.split(s2, self.eq(c, ord(":"))):
					if truth:
						out.append((s3, q3, ok(wrap(meta(key, e)))))
					else:
						out.append((s3, q3, err(unexpected(pos, some(c)))))
		return out

	def u_object_start(self, st, p, ctx):
		p, i = self.p_begin(p)
		q, pos, c = self.p_next(p)
		if c is None:
			return [(st, q, err(unexpected(pos, NONE)))]
		out = []
		for s, truth in self.sym.split(st, self.eq(c, ord("{"))):
			if not truth:
				out.append((s, q, err(unexpected(pos, some(c)))))
				continue
			for s2, q2 in self.p_skip_ws(s, q):
				q3, c2 = self.p_peek(q2)
				sides = [(s2, False)] if c2 is None else self.sym.split(s2, self.eq(c2, ord("}")))
				for s3, t2 in sides:
					if t2:
						q4, _, _ = self.p_next(q3)
						out.append((s3, self.p_end(q4, i), ok(meta(Agg("object::StartFragment", "Empty", ()), i))))
					else:
						out += self.key_colon(s3, q3, lambda k: meta(Agg("object::StartFragment", "NonEmpty", (k,)), i))
		return out

	def u_object_continue(self, st, p, obj):
		out = []
		for s, q in self.p_skip_ws(st, p):
			q2, pos, c = self.p_next(q)
			if c is None:
				out.append((s, q2, err(unexpected(pos, NONE))))
				continue
			for s2, name in self.classify(s, c, [("comma", self.eq(c, ord(","))), ("close", self.eq(c, ord("}"))), ("x", True)]):
				if name == "comma":
					for s3, q3 in self.p_skip_ws(s2, q2):
						out += self.key_colon(s3, q3, lambda k: Agg("object::ContinueFragment", "Entry", (k,)))
				elif name == "close":
					out.append((s2, self.p_end(q2, obj), ok(Agg("object::ContinueFragment", "End", ()))))
				else:
					out.append((s2, q2, err(unexpected(pos, some(c)))))
		return out

	def unit(self, f, with_ctx=True):
		def model(ip, st, args):
			p = self.load(ip, st, args[0])
			a = args[1]
			if with_ctx:
				if not (isinstance(a, Agg) and a.ty == "Context"):
					raise MirError("expected a Context, got %r" % (a,))
				a = a.variant
			out = []
			for s, q, r in f(st, p, a):
				self.store(ip, s, args[0], q)
				out.append((s, r))
			return out

		return model

	def key_eq(self, a, b):
		"""content equality of two keys (spans of the input, quotes included)"""
		if a == b:
			return True
		if a[2] - a[1] != b[2] - b[1]:
			return False
		xs, ys = self.chars[a[1] + 1 : a[2] - 1], self.chars[b[1] + 1 : b[2] - 1]
		if all(isinstance(c, int) for c in xs + ys):
			return xs == ys
		raise MirError("comparison of keys with symbolic characters (only concrete or empty keys can be compared)")

	# ---- std / locspan
	def table(self):
		one = lambda f: (lambda ip, st, args: [(st, f(ip, st, args))])

		def vec_push(ip, st, args):
			loc = (args[0][0], args[0][1], args[0][2])
			v = ip.read_loc(st, loc)
			if not (isinstance(v, tuple) and v[0] == "vec"):
				raise MirError("Vec::push on %r" % (v,))
			ip.write_loc(st, loc, ("vec", v[1] + (args[1],)))
			return UNIT

		def vec_pop(ip, st, args):
			loc = (args[0][0], args[0][1], args[0][2])
			v = ip.read_loc(st, loc)
			if not (isinstance(v, tuple) and v[0] == "vec"):
				raise MirError("Vec::pop on %r" % (v,))
			if not v[1]:
				return NONE
			ip.write_loc(st, loc, ("vec", v[1][:-1]))
			return some(v[1][-1])

		def obj_push(ip, st, args):
			loc = (args[0][0], args[0][1], args[0][2])
			v = ip.read_loc(st, loc)
			if not (isinstance(v, tuple) and v[0] == "obj"):
				raise MirError("Object::push on %r" % (v,))
			ip.write_loc(st, loc, ("obj", v[1] + ((args[1], args[2]),)))
			return True  # the fresh-key flag (ignored by the driver; key comparison is C06's subject)

		def obj_insert(ip, st, args):
			# Object::insert whose result is dropped unconsumed (drops are not interpreted): the
			# first entry with the key is replaced, every other entry with it is removed
			loc = (args[0][0], args[0][1], args[0][2])
			v = ip.read_loc(st, loc)
			if not (isinstance(v, tuple) and v[0] == "obj"):
				raise MirError("Object::insert on %r" % (v,))
			if all(not self.key_eq(k, args[1]) for k, _ in v[1]):
				ip.write_loc(st, loc, ("obj", v[1] + ((args[1], args[2]),)))
				return NONE
			out = []
			done = False
			for k, x in v[1]:
				if self.key_eq(k, args[1]):
					if not done:
						out.append((args[1], args[2]))
						done = True
				else:
					out.append((k, x))
			ip.write_loc(st, loc, ("obj", tuple(out)))
			return some(Agg("RemovedByInsertion", None, ()))

		def opt_take(ip, st, args):
			loc = (args[0][0], args[0][1], args[0][2])
			v = ip.read_loc(st, loc)
			ip.write_loc(st, loc, NONE)
			return v

		def slice_last(ip, st, args):
			v = ip.read_loc(st, (args[0][0], args[0][1], args[0][2]))
			if not v[1]:
				return NONE
			return some(Ref(args[0][0], args[0][1], args[0][2] + ("last",)))

		def branch(ip, st, args):
			r = args[0]
			if r.variant == "Ok":
				return Agg("ControlFlow", "Continue", (r.fields[0],))
			return Agg("ControlFlow", "Break", (err(r.fields[0]),))

		def from_residual(ip, st, args):
			return err(args[0].fields[0])

		def meta_map(ip, st, args):
			m = args[0]
			return meta(ip.call_function_value(st, args[1], [m.fields[0]]), m.fields[1])

		def meta_cast(ip, st, args):
			m = args[0]
			fn = ip.resolve_fn("@from", "from", [m.fields[0]])
			if fn is None:
				raise MirError("`From<Value> for Fragment` not found in the MIR")
			return meta(ip.eval_simple(st, fn, [m.fields[0]]), m.fields[1])

		return {
			"@field": self.field,
			"Vec::new": one(lambda ip, st, a: VEC0),
			"Vec::push": one(vec_push),
			"Vec::pop": one(vec_pop),
			"<Vec as Deref>::deref": one(lambda ip, st, a: a[0]),
			"core::slice::last": one(slice_last),
			"Option::take": one(opt_take),
			"Object::new": one(lambda ip, st, a: OBJ0),
			"Object::push": one(obj_push),
			"Object::insert": one(obj_insert),
			"<Result as Try>::branch": one(branch),
			"<Result as FromResidual>::from_residual": one(from_residual),
			"Meta::map": one(meta_map),
			"Meta::cast": one(meta_cast),
			"parse::Error::unexpected": one(lambda ip, st, a: unexpected(a[0], a[1])),
			"Parser::skip_whitespaces": self.m_skip_whitespaces,
			"Parser::peek_char": self.m_peek_char,
			"Parser::next_char": self.m_next_char,
			"Parser::end_fragment": self.m_end_fragment,
			"<() as Parse>::parse_in": self.unit(self.u_null),
			"<bool as Parse>::parse_in": self.unit(self.u_bool),
			"<json_number::NumberBuf as Parse>::parse_in": self.unit(self.u_number),
			"<SmallString as Parse>::parse_in": self.unit(self.u_string),
			"<parse::array::StartFragment as Parse>::parse_in": self.unit(self.u_array_start),
			"<parse::object::StartFragment as Parse>::parse_in": self.unit(self.u_object_start),
			"parse::array::ContinueFragment::parse_in": self.unit(self.u_array_continue, with_ctx=False),
			"parse::object::ContinueFragment::parse_in": self.unit(self.u_object_continue, with_ctx=False),
		}


# ---------------------------------------------------------------------------
# reference: single-pass pushdown recogniser, executed on the same symbolic
# characters (forks where the path condition does not decide a character)


class RefResult:
	__slots__ = ("ok", "err", "err_eof", "value", "cmap")

	def __repr__(self):
		if self.ok:
			return "Ok(%r, cmap=%r)" % (self.value, self.cmap)
		return "Err(at %d%s)" % (self.err, ", end of input" if self.err_eof else "")


def reference(m, st):
	"""[(state, RefResult)] for every feasible completion of st's path condition.
	`m`: Models (for chars / classify / sym)."""
	n = m.n
	chars = m.chars
	out = []
	# configuration: (i, mode, stack, cmap, done-values)
	# stack items: ('arr', cm_index, items) | ('obj', cm_index, entries, pending (key, entry_cm_index) | None)
	# modes: V value expected, VE value or ']', KE key or '}', K key, C colon, A after value
	# scalar-in-progress modes carry their own data

	def fail(s, i):
		r = RefResult()
		r.ok = False
		r.err = i
		r.err_eof = i >= n
		r.value = None
		r.cmap = None
		out.append((s, r))

	def finish_value(stack, cmap, value, end):
		"""a complete value ended before character index `end`"""
		if not stack:
			return ("A", (), cmap, value)
		top = stack[-1]
		if top[0] == "arr":
			return ("A", stack[:-1] + (("arr", top[1], top[2] + (value,)),), cmap, None)
		key, e = top[3]
		cmap = cmap[:e] + ((cmap[e][0], end, len(cmap) - e),) + cmap[e + 1 :]
		return ("A", stack[:-1] + (("obj", top[1], top[2] + ((key, value),), None),), cmap, None)

	def close(stack, cmap, i):
		top = stack[-1]
		c = top[1]
		cmap = cmap[:c] + ((cmap[c][0], i + 1, len(cmap) - c),) + cmap[c + 1 :]
		if top[0] == "arr":
			v = Agg("Value", "Array", (("vec", top[2]),))
		else:
			v = Agg("Value", "Object", (("obj", top[2]),))
		return finish_value(stack[:-1], cmap, v, i + 1)

	work = [(st.fork(), 0, "V", (), (), None, None)]
	while work:
		s, i, mode, stack, cmap, root, sc = work.pop()
		c = chars[i] if i < n else None

		def go(s2, i2, cfg, sc2=None):
			work.append((s2, i2, cfg[0], cfg[1], cfg[2], cfg[3] if cfg[3] is not None else root, sc2))

		if mode in ("V", "VE"):
			if c is None:
				fail(s, i)
				continue
			classes = [("ws", m.is_ws(c))]
			if mode == "VE":
				classes.append(("close", m.eq(c, ord("]"))))
			classes += [
				("n", m.eq(c, ord("n"))), ("t", m.eq(c, ord("t"))), ("f", m.eq(c, ord("f"))),
				("num", c_or(c == ord("-"), m.between(c, ord("0"), ord("9")))),
				("str", m.eq(c, ord('"'))), ("[", m.eq(c, ord("["))), ("{", m.eq(c, ord("{"))), ("x", True),
			]
			for s2, name in m.classify(s, c, classes):
				if name == "ws":
					work.append((s2, i + 1, mode, stack, cmap, root, None))
				elif name == "close":
					go(s2, i + 1, close(stack, cmap, i))
				elif name in ("n", "t", "f"):
					lit = {"n": "null", "t": "true", "f": "false"}[name]
					work.append((s2, i + 1, "L", stack, cmap + ((i, i, 0),), root, (lit, 1, len(cmap))))
				elif name == "num":
					# the class of c within "num": '-', '0' or '1'-'9'
					for s3, k in m.classify(s2, c, m.num_classes(c)):
						work.append((s3, i + 1, "N", stack, cmap + ((i, i, 0),), root, (m.NUM_DFA[0][k], i, len(cmap))))
				elif name == "str":
					work.append((s2, i + 1, "S", stack, cmap + ((i, i, 0),), root, (i, len(cmap), False)))
				elif name == "[":
					work.append((s2, i + 1, "VE", stack + (("arr", len(cmap), ()),), cmap + ((i, i, 0),), root, None))
				elif name == "{":
					work.append((s2, i + 1, "KE", stack + (("obj", len(cmap), (), None),), cmap + ((i, i, 0),), root, None))
				else:
					fail(s2, i)
		elif mode in ("KE", "K"):
			if c is None:
				fail(s, i)
				continue
			classes = [("ws", m.is_ws(c))]
			if mode == "KE":
				classes.append(("close", m.eq(c, ord("}"))))
			classes += [("str", m.eq(c, ord('"'))), ("x", True)]
			for s2, name in m.classify(s, c, classes):
				if name == "ws":
					work.append((s2, i + 1, mode, stack, cmap, root, None))
				elif name == "close":
					go(s2, i + 1, close(stack, cmap, i))
				elif name == "str":
					e = len(cmap)
					work.append((s2, i + 1, "S", stack, cmap + ((i, i, 0), (i, i, 0)), root, (i, e + 1, True)))
				else:
					fail(s2, i)
		elif mode == "C":
			if c is None:
				fail(s, i)
				continue
			for s2, name in m.classify(s, c, [("ws", m.is_ws(c)), ("colon", m.eq(c, ord(":"))), ("x", True)]):
				if name == "ws":
					work.append((s2, i + 1, "C", stack, cmap, root, None))
				elif name == "colon":
					work.append((s2, i + 1, "V", stack, cmap, root, None))
				else:
					fail(s2, i)
		elif mode == "A":
			if not stack:
				if c is None:
					r = RefResult()
					r.ok = True
					r.err = None
					r.err_eof = False
					r.value = root
					r.cmap = cmap
					out.append((s, r))
					continue
				for s2, truth in m.sym.split(s, m.is_ws(c)):
					if truth:
						work.append((s2, i + 1, "A", stack, cmap, root, None))
					else:
						fail(s2, i)
				continue
			if c is None:
				fail(s, i)
				continue
			top = stack[-1]
			sep, cl = (",", "]") if top[0] == "arr" else (",", "}")
			for s2, name in m.classify(s, c, [("ws", m.is_ws(c)), ("sep", m.eq(c, ord(sep))), ("close", m.eq(c, ord(cl))), ("x", True)]):
				if name == "ws":
					work.append((s2, i + 1, "A", stack, cmap, root, None))
				elif name == "sep":
					work.append((s2, i + 1, "V" if top[0] == "arr" else "K", stack, cmap, root, None))
				elif name == "close":
					go(s2, i + 1, close(stack, cmap, i))
				else:
					fail(s2, i)
		elif mode == "L":
			lit, k, ci = sc
			if c is None:
				fail(s, i)
				continue
			for s2, truth in m.sym.split(s, m.eq(c, ord(lit[k]))):
				if not truth:
					fail(s2, i)
				elif k + 1 == len(lit):
					cm2 = cmap[:ci] + ((cmap[ci][0], i + 1, 1),) + cmap[ci + 1 :]
					v = {"null": Agg("Value", "Null", ()), "true": Agg("Value", "Boolean", (True,)), "false": Agg("Value", "Boolean", (False,))}[lit]
					go(s2, i + 1, finish_value(stack, cm2, v, i + 1))
				else:
					work.append((s2, i + 1, "L", stack, cmap, root, (lit, k + 1, ci)))
		elif mode == "N":
			state, start, ci = sc

			def end_number(s2):
				if not m.NUM_ACCEPTING[state]:
					fail(s2, i)
					return
				cm2 = cmap[:ci] + ((cmap[ci][0], i, 1),) + cmap[ci + 1 :]
				v = Agg("Value", "Number", (("num", start, i),))
				# the character is looked at again in mode A (no follow-set check here: pure grammar)
				go(s2, i, finish_value(stack, cm2, v, i))

			if c is None:
				end_number(s)
				continue
			for s2, k in m.classify(s, c, m.num_classes(c)):
				t = m.NUM_DFA[state][k]
				if t != 255:
					work.append((s2, i + 1, "N", stack, cmap, root, (t, start, ci)))
				else:
					end_number(s2)
		elif mode == "S":
			start, ci, is_key = sc
			if c is None:
				fail(s, i)
				continue
			for s2, name in m.classify(s, c, [("quote", m.eq(c, ord('"'))), ("bs", m.eq(c, ord("\\"))), ("ctl", c < 0x20), ("raw", True)]):
				if name == "quote":
					cm2 = cmap[:ci] + ((cmap[ci][0], i + 1, 1),) + cmap[ci + 1 :]
					sv = ("str", start, i + 1)
					if is_key:
						top = stack[-1]
						st2 = stack[:-1] + (("obj", top[1], top[2], (sv, ci - 1)),)
						work.append((s2, i + 1, "C", st2, cm2, root, None))
					else:
						go(s2, i + 1, finish_value(stack, cm2, Agg("Value", "String", (sv,)), i + 1))
				elif name == "bs":
					raise MirError("backslash in input: escapes are outside the driver check")
				elif name == "ctl":
					fail(s2, i)
				else:
					work.append((s2, i + 1, "S", stack, cmap, root, sc))
		else:
			raise MirError("reference: mode " + mode)
	return out


# ---------------------------------------------------------------------------
# comparison of one finished implementation path with the reference


def compare(m, st, result, parser):
	"""list of (label, detail, state) for every feasible completion on which the
	implementation's result differs from the reference"""
	bad = []
	n = m.n
	for s, want in reference(m, st):
		if result.variant == "Ok":
			if not want.ok:
				bad.append(("C01:document-accepted-only-if-exactly-one-rfc8259-value", "accepted, reference rejects at %d" % want.err, s))
				continue
			mv = result.fields[0]
			value, index = mv.fields
			if value != want.value:
				bad.append(("C02:document-content-items-and-entries-in-source-order", "value %r, reference %r" % (value, want.value), s))
			if index != 0:
				bad.append(("C05:root-fragment-is-entry-0", "root index %r" % (index,), s))
			if tuple(parser[3]) != tuple(want.cmap):
				bad.append(("C05:one-code-map-entry-per-fragment-with-its-span-and-volume", "code map %r, reference %r" % (parser[3], want.cmap), s))
			if parser[1] != n:
				bad.append(("C01:whole-input-consumed", "position %r of %d" % (parser[1], n), s))
			if parser[2] != n:
				bad.append(("C01:single-pass", "pulled %r of %d" % (parser[2], n), s))
		else:
			if want.ok:
				bad.append(("C01:document-accepted-when-exactly-one-rfc8259-value", "rejected with %r" % (result.fields[0],), s))
				continue
			e = result.fields[0]
			good = isinstance(e, Agg) and e.variant == "Unexpected" and e.fields[0] == want.err
			if good:
				oc = e.fields[1]
				if want.err_eof:
					good = oc.variant == "None"
				else:
					a, b = (oc.fields[0] if oc.variant == "Some" else None), m.chars[want.err]
					good = oc.variant == "Some" and ((a == b) if isinstance(a, int) else (a is b))
			if not good:
				bad.append(("C07:document-error-at-first-non-viable-character", "error %r, reference rejects at %d" % (e, want.err), s))
			if parser[2] > want.err + 1:
				bad.append(("C01:single-pass", "pulled %r characters, error at %d" % (parser[2], want.err), s))
	return bad
