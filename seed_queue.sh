#!/bin/bash
# development aid: evaluates every seeded change against the checks expected to catch it
cd /verif
run() { ./seed_eval.sh /verif/seeded/$1 "${@:2}"; }
run C01-1 C01:l3_number_n3
run C01-2 C01:s1_object_continue_shaped
run C01-3 C01:l5_null_slice_with_n3
run C02-1 C02:d1_escape_any_any
run C02-2 C02:l3_number_n3
run C02-3 C02:i1_indexes_3 C06:i1_indexes_3
run C04-1 C04:c08_string_literal_1char
run C04-2 C04:c13_p1_array_k3
run C04-3 C04:c08_scalar_number
run C05-1 C05:p0_
run C05-2 C05:c12_h
run C05-3 C05:s1_object_continue_shaped
run C06-1 C06:i1_indexes_4
run C07-1 C07:l3_number_n4
run C07-2 C07:s1_object_continue_shaped
run C07-3 C07:c12_h
run C08-1 C08:c08_string_literal_1char
run C08-2 C08:c08_compact_object_k0
run C09-3 C09:c08_string_literal_1char
run C12-1 C12:c12_hh
run C12-2 C12:c12_l
run C13-1 C13:c08_string_literal_1char
run C13-2 C13:c13_p1_object_k2
run C13-3 C13:c13_indent
run C14-2 C14:c14_laws_scalars
run C20-1 C20:c20_ops_set_set
run C20-2 C20:c20_iter_interleavings
run C20-3 C20:c20_value_kind
echo ALLDONE >> .build/logs/seed-summary.txt
