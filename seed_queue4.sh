#!/bin/bash
cd /verif
run() { ./seed_eval.sh /verif/seeded/$1 "${@:2}"; }
run C06-2 C06:obj::
run C06-3 C06:obj::
run V2-4 C02:drv::
echo ALLDONE4 >> .build/logs/seed-summary.txt
