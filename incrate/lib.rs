// Included into /repo/src/lib.rs as `mod verif` under cfg(json_syntax_verif).
//
// `table`: a small, heap-free *contract-checking model* of the two hashbrown
// items `src/object/index_map.rs` uses (`raw::RawTable`, `DefaultHashBuilder`).
// hashbrown/ahash themselves are trusted, not verified: the real table needs a
// `getrandom` syscall for seeding (unsupported by Kani) and exhausts memory on
// three insertions once that is stubbed.
//
// The model keeps at most `CAP` elements in slots. It only ever hands the
// equality closure elements whose stored hash equals the probe hash (as a real
// table does), and on every `insert` it re-hashes all stored elements through
// the caller's hasher closure — exactly what a real table may do when it
// grows — and asserts that none of them moved: an index entry whose
// representative position went stale is detected at that point.
#[allow(dead_code)]
pub mod util {
	include!(concat!(env!("JSON_SYNTAX_VERIF_DIR"), "/kani/src/util.rs"));
}

#[allow(dead_code)]
pub mod table {
	use core::hash::{BuildHasher, Hasher};

	pub const CAP: usize = 4;

	#[derive(Clone)]
	pub struct RawTable<T> {
		slots: [Option<(u64, T)>; CAP],
	}

	impl<T> Default for RawTable<T> {
		fn default() -> Self {
			Self {
				slots: [None, None, None, None],
			}
		}
	}

	pub struct Bucket<T> {
		ptr: *mut (u64, T),
		slot: usize,
	}

	impl<T> Bucket<T> {
		/// # Safety
		/// Same contract as `hashbrown::raw::Bucket::as_ref`.
		pub unsafe fn as_ref<'a>(&self) -> &'a T {
			&(*self.ptr).1
		}

		/// # Safety
		/// Same contract as `hashbrown::raw::Bucket::as_mut`.
		pub unsafe fn as_mut<'a>(&self) -> &'a mut T {
			&mut (*self.ptr).1
		}
	}

	pub struct RawIter<T> {
		base: *mut Option<(u64, T)>,
		next: usize,
	}

	impl<T> Iterator for RawIter<T> {
		type Item = Bucket<T>;

		fn next(&mut self) -> Option<Bucket<T>> {
			while self.next < CAP {
				let slot = self.next;
				self.next += 1;
				let cell = unsafe { &mut *self.base.add(slot) };
				if let Some(pair) = cell {
					return Some(Bucket {
						ptr: pair as *mut (u64, T),
						slot,
					});
				}
			}
			None
		}
	}

	impl<T> RawTable<T> {
		pub fn len(&self) -> usize {
			let mut n = 0;
			let mut i = 0;
			while i < CAP {
				if self.slots[i].is_some() {
					n += 1
				}
				i += 1;
			}
			n
		}

		fn position(&self, hash: u64, mut eq: impl FnMut(&T) -> bool) -> Option<usize> {
			let mut i = 0;
			while i < CAP {
				if let Some((h, v)) = &self.slots[i] {
					if *h == hash && eq(v) {
						return Some(i);
					}
				}
				i += 1;
			}
			None
		}

		pub fn get(&self, hash: u64, eq: impl FnMut(&T) -> bool) -> Option<&T> {
			match self.position(hash, eq) {
				Some(i) => self.slots[i].as_ref().map(|p| &p.1),
				None => None,
			}
		}

		pub fn get_mut(&mut self, hash: u64, eq: impl FnMut(&T) -> bool) -> Option<&mut T> {
			match self.position(hash, eq) {
				Some(i) => self.slots[i].as_mut().map(|p| &mut p.1),
				None => None,
			}
		}

		pub fn find(&self, hash: u64, eq: impl FnMut(&T) -> bool) -> Option<Bucket<T>> {
			match self.position(hash, eq) {
				Some(i) => {
					let base = self.slots.as_ptr() as *mut Option<(u64, T)>;
					let cell = unsafe { &mut *base.add(i) };
					cell.as_mut().map(|pair| Bucket {
						ptr: pair as *mut (u64, T),
						slot: i,
					})
				}
				None => None,
			}
		}

		pub fn insert(&mut self, hash: u64, value: T, hasher: impl Fn(&T) -> u64) -> Bucket<T> {
			// A real table may re-hash any stored element here (growth).
			let mut i = 0;
			while i < CAP {
				if let Some((h, v)) = &self.slots[i] {
					assert!(
						hasher(v) == *h,
						"C06:index-stale-hash: a stored index entry no longer hashes to the value it was stored under"
					);
				}
				i += 1;
			}
			let mut i = 0;
			while i < CAP {
				if self.slots[i].is_none() {
					self.slots[i] = Some((hash, value));
					let pair = self.slots[i].as_mut().unwrap();
					return Bucket {
						ptr: pair as *mut (u64, T),
						slot: i,
					};
				}
				i += 1;
			}
			panic!("model table capacity exceeded (outside the stated bound)")
		}

		/// # Safety
		/// `bucket` must come from this table and still be live.
		pub unsafe fn remove(&mut self, bucket: Bucket<T>) -> T {
			self.slots[bucket.slot].take().unwrap().1
		}

		/// # Safety
		/// Same contract as `hashbrown::raw::RawTable::iter`.
		pub unsafe fn iter(&self) -> RawIter<T> {
			RawIter {
				base: self.slots.as_ptr() as *mut Option<(u64, T)>,
				next: 0,
			}
		}

		pub fn clear(&mut self) {
			let mut i = 0;
			while i < CAP {
				self.slots[i] = None;
				i += 1;
			}
		}

		/// Harness-side read access: stored (hash, value) of slot `i`.
		pub fn slot(&self, i: usize) -> Option<&(u64, T)> {
			self.slots[i].as_ref()
		}
	}

	/// Deliberately collision-rich: the hash is one bit of the first byte
	/// written (for `str`/`SmallString` keys: of the first key byte, `0xff`
	/// for the empty key), so equal and unequal hashes both occur among
	/// one-byte keys and the equality closure is exercised.
	#[derive(Clone, Copy, Default)]
	pub struct DefaultHashBuilder;

	pub struct ModelHasher {
		first: Option<u8>,
	}

	impl Hasher for ModelHasher {
		fn write(&mut self, bytes: &[u8]) {
			if self.first.is_none() && !bytes.is_empty() {
				self.first = Some(bytes[0]);
			}
		}

		fn finish(&self) -> u64 {
			match self.first {
				Some(b) => (b & 1) as u64,
				None => 0,
			}
		}
	}

	impl BuildHasher for DefaultHashBuilder {
		type Hasher = ModelHasher;

		fn build_hasher(&self) -> ModelHasher {
			ModelHasher { first: None }
		}
	}
}
