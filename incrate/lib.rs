// Included into /repo/src/lib.rs as `mod verif` under cfg(json_syntax_verif).
//
// `table`: a small, heap-free *contract-checking model* of the two hashbrown
// items `src/object/index_map.rs` uses (`raw::RawTable`, `DefaultHashBuilder`).
// hashbrown/ahash themselves are trusted, not verified: the real table needs a
// `getrandom` syscall for seeding (unsupported by Kani) and exhausts memory on
// three insertions once that is stubbed.
//
// The model keeps at most `CAP` elements in slots. It only ever hands the
// equality closure elements whose stored hash equals the probe hash (as a real
// table does), and on every `insert` it re-hashes all stored elements through
// the caller's hasher closure — exactly what a real table may do when it
// grows — and asserts that none of them moved: an index entry whose
// representative position went stale is detected at that point.
#[allow(dead_code)]
pub mod util {
	include!(concat!(env!("JSON_SYNTAX_VERIF_DIR"), "/kani/src/util.rs"));
}

#[allow(dead_code)]
pub mod table {
	use core::hash::{BuildHasher, Hasher};

	pub const CAP: usize = 4;

	/// Four explicit slots (not an array): every access goes through a `match`
	/// on the slot number, so that CBMC never has to dereference a pointer
	/// with a symbolic offset into the table (the array version ran out of
	/// memory as soon as a `Vec` inside a slot selected by a symbolic key was
	/// modified).
	#[derive(Clone)]
	pub struct RawTable<T> {
		s0: Option<(u64, T)>,
		s1: Option<(u64, T)>,
		s2: Option<(u64, T)>,
		s3: Option<(u64, T)>,
	}

	impl<T> Default for RawTable<T> {
		fn default() -> Self {
			Self {
				s0: None,
				s1: None,
				s2: None,
				s3: None,
			}
		}
	}

	pub struct Bucket<T> {
		ptr: *mut (u64, T),
		slot: usize,
	}

	impl<T> Bucket<T> {
		/// # Safety
		/// Same contract as `hashbrown::raw::Bucket::as_ref`.
		pub unsafe fn as_ref<'a>(&self) -> &'a T {
			&(*self.ptr).1
		}

		/// # Safety
		/// Same contract as `hashbrown::raw::Bucket::as_mut`.
		pub unsafe fn as_mut<'a>(&self) -> &'a mut T {
			&mut (*self.ptr).1
		}
	}

	pub struct RawIter<T> {
		table: *mut RawTable<T>,
		next: usize,
	}

	impl<T> Iterator for RawIter<T> {
		type Item = Bucket<T>;

		fn next(&mut self) -> Option<Bucket<T>> {
			while self.next < CAP {
				let slot = self.next;
				self.next += 1;
				let cell = unsafe { (*self.table).cell_mut(slot) };
				if let Some(pair) = cell {
					return Some(Bucket {
						ptr: pair as *mut (u64, T),
						slot,
					});
				}
			}
			None
		}
	}

	impl<T> RawTable<T> {
		fn cell(&self, i: usize) -> &Option<(u64, T)> {
			match i {
				0 => &self.s0,
				1 => &self.s1,
				2 => &self.s2,
				_ => &self.s3,
			}
		}

		fn cell_mut(&mut self, i: usize) -> &mut Option<(u64, T)> {
			match i {
				0 => &mut self.s0,
				1 => &mut self.s1,
				2 => &mut self.s2,
				_ => &mut self.s3,
			}
		}

		pub fn len(&self) -> usize {
			self.s0.is_some() as usize + self.s1.is_some() as usize + self.s2.is_some() as usize + self.s3.is_some() as usize
		}

		fn position(&self, hash: u64, mut eq: impl FnMut(&T) -> bool) -> Option<usize> {
			macro_rules! probe {
				($f:ident, $i:expr) => {
					if let Some((h, v)) = &self.$f {
						if *h == hash && eq(v) {
							return Some($i);
						}
					}
				};
			}
			probe!(s0, 0);
			probe!(s1, 1);
			probe!(s2, 2);
			probe!(s3, 3);
			None
		}

		pub fn get(&self, hash: u64, eq: impl FnMut(&T) -> bool) -> Option<&T> {
			match self.position(hash, eq) {
				Some(0) => self.s0.as_ref().map(|p| &p.1),
				Some(1) => self.s1.as_ref().map(|p| &p.1),
				Some(2) => self.s2.as_ref().map(|p| &p.1),
				Some(_) => self.s3.as_ref().map(|p| &p.1),
				None => None,
			}
		}

		pub fn get_mut(&mut self, hash: u64, eq: impl FnMut(&T) -> bool) -> Option<&mut T> {
			match self.position(hash, eq) {
				Some(0) => self.s0.as_mut().map(|p| &mut p.1),
				Some(1) => self.s1.as_mut().map(|p| &mut p.1),
				Some(2) => self.s2.as_mut().map(|p| &mut p.1),
				Some(_) => self.s3.as_mut().map(|p| &mut p.1),
				None => None,
			}
		}

		pub fn find(&self, hash: u64, eq: impl FnMut(&T) -> bool) -> Option<Bucket<T>> {
			let this = self as *const Self as *mut Self;
			macro_rules! bucket {
				($f:ident, $i:expr) => {
					unsafe { (*this).$f.as_mut() }.map(|pair| Bucket {
						ptr: pair as *mut (u64, T),
						slot: $i,
					})
				};
			}
			match self.position(hash, eq) {
				Some(0) => bucket!(s0, 0),
				Some(1) => bucket!(s1, 1),
				Some(2) => bucket!(s2, 2),
				Some(_) => bucket!(s3, 3),
				None => None,
			}
		}

		pub fn insert(&mut self, hash: u64, value: T, hasher: impl Fn(&T) -> u64) -> Bucket<T> {
			// A real table may re-hash any stored element here (growth).
			macro_rules! fresh {
				($f:ident) => {
					if let Some((h, v)) = &self.$f {
						assert!(
							hasher(v) == *h,
							"C06:index-stale-hash: a stored index entry no longer hashes to the value it was stored under"
						);
					}
				};
			}
			fresh!(s0);
			fresh!(s1);
			fresh!(s2);
			fresh!(s3);
			macro_rules! put {
				($f:ident, $i:expr) => {
					if self.$f.is_none() {
						self.$f = Some((hash, value));
						let pair = self.$f.as_mut().unwrap();
						return Bucket {
							ptr: pair as *mut (u64, T),
							slot: $i,
						};
					}
				};
			}
			put!(s0, 0);
			put!(s1, 1);
			put!(s2, 2);
			put!(s3, 3);
			panic!("model table capacity exceeded (outside the stated bound)")
		}

		/// # Safety
		/// `bucket` must come from this table and still be live.
		pub unsafe fn remove(&mut self, bucket: Bucket<T>) -> T {
			match bucket.slot {
				0 => self.s0.take().unwrap().1,
				1 => self.s1.take().unwrap().1,
				2 => self.s2.take().unwrap().1,
				_ => self.s3.take().unwrap().1,
			}
		}

		/// # Safety
		/// Same contract as `hashbrown::raw::RawTable::iter`.
		pub unsafe fn iter(&self) -> RawIter<T> {
			RawIter {
				table: self as *const Self as *mut Self,
				next: 0,
			}
		}

		pub fn clear(&mut self) {
			self.s0 = None;
			self.s1 = None;
			self.s2 = None;
			self.s3 = None;
		}

		/// Harness-side read access: stored (hash, value) of slot `i`.
		pub fn slot(&self, i: usize) -> Option<&(u64, T)> {
			self.cell(i).as_ref()
		}
	}

	/// Deliberately collision-rich: the hash is one bit of the first byte
	/// written (for `str`/`SmallString` keys: of the first key byte, `0xff`
	/// for the empty key), so equal and unequal hashes both occur among
	/// one-byte keys and the equality closure is exercised.
	#[derive(Clone, Copy, Default)]
	pub struct DefaultHashBuilder;

	pub struct ModelHasher {
		first: Option<u8>,
	}

	impl Hasher for ModelHasher {
		fn write(&mut self, bytes: &[u8]) {
			if self.first.is_none() && !bytes.is_empty() {
				self.first = Some(bytes[0]);
			}
		}

		fn finish(&self) -> u64 {
			match self.first {
				Some(b) => (b & 1) as u64,
				None => 0,
			}
		}
	}

	impl BuildHasher for DefaultHashBuilder {
		type Hasher = ModelHasher;

		fn build_hasher(&self) -> ModelHasher {
			ModelHasher { first: None }
		}
	}
}
