// Included into /repo/src/object/index_map.rs as `mod verif` under cfg(json_syntax_verif).
//
// C06 — the key index never goes stale. One-step (inductive) harnesses:
//   I1  `Indexes` primitives from an arbitrary state satisfying the
//       representation invariant  rep < other[0] < other[1] < ...
//   I2  `IndexMap` primitives from the canonical index of an arbitrary entry
//       list (built by the harness, so every consistent state is covered,
//       reachable or not), over the model table of /verif/incrate/lib.rs.
use super::{Entry, IndexMap, Indexes, Key};
use crate::verif::table::{DefaultHashBuilder, RawTable, CAP};
use crate::Value;
use core::hash::BuildHasher;

// ---------------------------------------------------------------------------
// I1

/// Abstract value of an `Indexes`: the set of positions as a bit mask;
/// `None` if the representation invariant is broken.
pub fn positions(ix: &Indexes) -> Option<u16> {
	if ix.rep >= 16 {
		return None;
	}
	let mut s: u16 = 1 << ix.rep;
	let mut last = ix.rep;
	let mut k = 0;
	while k < ix.other.len() {
		let o = ix.other[k];
		if o <= last || o >= 16 {
			return None;
		}
		s |= 1 << o;
		last = o;
		k += 1;
	}
	Some(s)
}

/// An arbitrary `Indexes` with `extra` redundant positions, all < 8.
#[cfg(kani)]
fn any_indexes(extra: usize) -> Indexes {
	let rep: usize = kani::any();
	kani::assume(rep < 8);
	let mut other = Vec::with_capacity(6);
	let mut last = rep;
	let mut k = 0;
	while k < extra {
		let o: usize = kani::any();
		kani::assume(o > last && o < 8);
		other.push(o);
		last = o;
		k += 1;
	}
	Indexes { rep, other }
}

fn shift_up_model(s: u16, i: usize) -> u16 {
	let low = s & ((1u16 << i) - 1);
	let high = s & !((1u16 << i) - 1);
	low | (high << 1)
}

fn shift_down_model(s: u16, i: usize) -> u16 {
	// positions > i move down by one; position i itself must be absent
	let low = s & ((1u16 << (i + 1)) - 1);
	let high = s & !((1u16 << (i + 1)) - 1);
	low | (high >> 1)
}

macro_rules! i1_indexes {
	($name:ident, $extra:expr) => {
		#[cfg(kani)]
		#[kani::proof]
		#[kani::unwind(7)]
		fn $name() {
			let mut ix = any_indexes($extra);
			let s = positions(&ix).unwrap();
			let rep0 = ix.rep;
			let i: usize = kani::any();
			kani::assume(i < 9);
			let op: u8 = kani::any();
			match op {
				0 => {
					ix.insert(i);
					assert!(positions(&ix) == Some(s | (1 << i)), "C02+C06:indexes-insert-adds-the-position-keeps-order");
				}
				1 => {
					let r = ix.remove(i);
					if s == 1 << i {
						assert!(!r && positions(&ix) == Some(s), "C06:indexes-remove-keeps-the-last-position-and-says-so");
					} else {
						assert!(r && positions(&ix) == Some(s & !(1 << i)), "C06:indexes-remove-drops-exactly-the-position");
					}
				}
				2 => {
					ix.shift_up(i);
					assert!(positions(&ix) == Some(shift_up_model(s, i)), "C06:indexes-shift-up-moves-positions-at-or-after");
				}
				_ => {
					kani::assume(s & (1 << i) == 0); // the caller removes position i first (asserted in I2)
					ix.shift_down(i);
					assert!(positions(&ix) == Some(shift_down_model(s, i)), "C06:indexes-shift-down-moves-positions-after");
				}
			}
			assert!(ix.first() == (positions(&ix).unwrap().trailing_zeros() as usize), "C06:representative-is-the-first-position");
			assert!(ix.len() == positions(&ix).unwrap().count_ones() as usize, "C06:indexes-len");
			assert!(ix.is_redundant() == (ix.len() > 1), "C06:indexes-is-redundant");
			// `redundant()` is the FIRST position after the representative (what insert / insert_front
			// remove next, and what redundant_index_of reports), `redundants()` all of them
			{
				let after = positions(&ix).unwrap() & !(1u16 << ix.first());
				let want = if after == 0 { None } else { Some(after.trailing_zeros() as usize) };
				assert!(ix.redundant() == want, "C06:redundant-is-the-second-position");
				assert!(ix.redundants().len() + 1 == ix.len(), "C06:redundants-are-all-but-the-representative");
			}
			kani::cover!(op == 0 && i < rep0);
			kani::cover!($extra == 0 || (op == 1 && s != 1 << i && s & (1 << i) != 0));
			kani::cover!(op == 2);
			kani::cover!(op == 3);
			core::mem::forget(ix);
		}
	};
}

i1_indexes!(i1_indexes_1, 0);
i1_indexes!(i1_indexes_2, 1);
i1_indexes!(i1_indexes_3, 2);
i1_indexes!(i1_indexes_4, 3);

// ---------------------------------------------------------------------------
// I2

pub const KEYS: [&str; 4] = ["a", "b", "c", ""];

/// Key `k` of the four-key universe: "a", "c" and "" collide under the model
/// hasher, "b" does not.
pub fn key(k: u8) -> Key {
	// built by pushes of concrete characters: `Key::from(&str)` with a symbolic
	// table index is a memcpy of symbolic length (out of memory at 12 GB)
	let mut s = Key::new();
	match k & 3 {
		0 => s.push('a'),
		1 => s.push('b'),
		2 => s.push('c'),
		_ => (),
	}
	s
}

pub fn entry(k: u8) -> Entry {
	Entry::new(key(k), Value::Null)
}

pub fn hash_of(k: u8) -> u64 {
	match k & 3 {
		0 => DefaultHashBuilder.hash_one(KEYS[0]),
		1 => DefaultHashBuilder.hash_one(KEYS[1]),
		2 => DefaultHashBuilder.hash_one(KEYS[2]),
		_ => DefaultHashBuilder.hash_one(KEYS[3]),
	}
}

/// A key-equality PATTERN is concrete per harness instance (`pat[i]` = class
/// of entry i, classes numbered in order of first appearance: [0,1,0] means
/// "first and third entries share a key, the second differs"), so that the
/// SHAPE of the index (number of buckets, lengths of the position lists) is
/// concrete, while the identity of the keys is symbolic: `cls` is an arbitrary
/// permutation of the four-key universe, so equal and colliding hashes between
/// classes are both covered. (Fully symbolic keys make the lengths of the
/// position vectors symbolic: 15 min / 12 GB without finishing.)
#[cfg(kani)]
pub fn any_classes() -> [u8; 4] {
	let c: [u8; 4] = [kani::any(), kani::any(), kani::any(), kani::any()];
	kani::assume(c[0] < 4 && c[1] < 4 && c[2] < 4 && c[3] < 4);
	kani::assume(c[0] != c[1] && c[0] != c[2] && c[0] != c[3] && c[1] != c[2] && c[1] != c[3] && c[2] != c[3]);
	c
}

pub fn keys_of(pat: &[usize; 3], cls: &[u8; 4]) -> [u8; 3] {
	[cls[pat[0]], cls[pat[1]], cls[pat[2]]]
}

/// The canonical index of the first `n` entries of the pattern: for every
/// class one `Indexes` holding its positions in ascending order. Built by
/// direct table writes.
pub fn canonical(pat: &[usize; 3], keys: &[u8; 3], n: usize) -> IndexMap {
	let mut table: RawTable<Indexes> = RawTable::default();
	let mut i = 0;
	while i < 3 {
		if i < n {
			let mut first = true;
			let mut j = 0;
			while j < i {
				if pat[j] == pat[i] {
					first = false;
				}
				j += 1;
			}
			if first {
				let mut other = Vec::with_capacity(4);
				let mut j = i + 1;
				while j < n {
					if pat[j] == pat[i] {
						other.push(j);
					}
					j += 1;
				}
				table.insert(hash_of(keys[i]), Indexes { rep: i, other }, |ix: &Indexes| hash_of(keys[ix.rep]));
			}
		}
		i += 1;
	}
	IndexMap {
		hash_builder: DefaultHashBuilder,
		table,
	}
}

/// Positions (bit mask) of class `c` among the first `n` entries of `pat`.
pub fn class_mask(pat: &[usize; 3], n: usize, c: usize) -> u16 {
	let mut m = 0;
	let mut j = 0;
	while j < 3 {
		if j < n && pat[j] == c {
			m |= 1 << j;
		}
		j += 1;
	}
	m
}

/// `map` is exactly the canonical index of the first `n` entries of `pat`.
///
/// Decided in two parts so that the formula stays small: (1) by direct
/// inspection of the model table — every stored `Indexes` holds exactly the
/// positions of its representative's class, in order, under the hash of the
/// representative's key; classes are disjoint and together cover 0..n — and
/// (2) one lookup through the real `IndexMap::get` for a SYMBOLIC class
/// (present, duplicated or absent), which must answer like a linear scan.
pub fn is_canonical(map: &IndexMap, entries: &[Entry], pat: &[usize; 3], cls: &[u8; 4], n: usize) -> bool {
	let mut covered: u16 = 0;
	let mut i = 0;
	while i < CAP {
		if let Some((h, ix)) = map.table.slot(i) {
			if ix.rep >= n || ix.rep >= 3 {
				return false;
			}
			let c = pat[ix.rep];
			let want = class_mask(pat, n, c);
			if positions(ix) != Some(want) || *h != hash_of(cls[c & 3]) || covered & want != 0 {
				return false;
			}
			covered |= want;
		}
		i += 1;
	}
	if covered != (1u16 << n) - 1 {
		return false;
	}
	query_agrees(map, entries, pat, cls, n)
}

#[cfg(kani)]
fn query_agrees(map: &IndexMap, entries: &[Entry], pat: &[usize; 3], cls: &[u8; 4], n: usize) -> bool {
	let c: usize = kani::any();
	kani::assume(c < 4);
	let want = class_mask(pat, n, c);
	let q = key(cls[c]);
	let r = match map.get(entries, &q) {
		None => want == 0,
		Some(ix) => positions(ix) == Some(want),
	};
	core::mem::forget(q);
	r
}

#[cfg(not(kani))]
fn query_agrees(map: &IndexMap, entries: &[Entry], pat: &[usize; 3], cls: &[u8; 4], n: usize) -> bool {
	(0..4).all(|c| {
		let want = class_mask(pat, n, c);
		match map.get(entries, &key(cls[c])) {
			None => want == 0,
			Some(ix) => positions(ix) == Some(want),
		}
	})
}

/// Stored hashes are those of the representative's key (what a real table
/// relies on when it grows).
pub fn hashes_fresh(map: &IndexMap, keys: &[u8]) -> bool {
	let mut i = 0;
	while i < CAP {
		if let Some((h, ix)) = map.table.slot(i) {
			if ix.rep >= keys.len() || *h != hash_of(keys[ix.rep]) {
				return false;
			}
		}
		i += 1;
	}
	true
}

/// insert(entries, n) from the canonical index of entries[..n]
macro_rules! i2_insert {
	($name:ident, $pat:expr, $n:expr) => {
		#[cfg(kani)]
		#[kani::proof]
		#[kani::unwind(5)]
		#[kani::stub(smallvec::SmallVec::try_grow, crate::verif::util::no_grow)]
		fn $name() {
			const N: usize = $n;
			const P: [usize; 3] = $pat;
			let cls = any_classes();
			let keys = keys_of(&P, &cls);
			let entries = [entry(keys[0]), entry(keys[1]), entry(keys[2])];
			let mut map = canonical(&P, &keys, N);
			let fresh = map.insert(&entries, N);
			let mut seen = false;
			let mut j = 0;
			while j < N {
				if P[j] == P[N] {
					seen = true;
				}
				j += 1;
			}
			assert!(fresh == !seen, "C06:insert-reports-whether-the-key-is-new");
			assert!(is_canonical(&map, &entries, &P, &cls, N + 1), "C06:index-canonical-after-append");
			assert!(hashes_fresh(&map, &keys), "C06:stored-hashes-match-representatives");
			assert!(map.contains_duplicate_keys() == (N + 1 > map.table.len()), "C06:contains-duplicate-keys");
			kani::cover!(hash_of(cls[0]) == hash_of(cls[1]));
			kani::cover!(hash_of(cls[0]) != hash_of(cls[1]));
			core::mem::forget(map);
			core::mem::forget(entries);
		}
	};
}

i2_insert!(i2_insert_a, [0, 1, 2], 0);
i2_insert!(i2_insert_aa, [0, 0, 1], 1);
i2_insert!(i2_insert_ab, [0, 1, 2], 1);
i2_insert!(i2_insert_aaa, [0, 0, 0], 2);
i2_insert!(i2_insert_aab, [0, 0, 1], 2);
i2_insert!(i2_insert_aba, [0, 1, 0], 2);
i2_insert!(i2_insert_abb, [0, 1, 1], 2);
i2_insert!(i2_insert_abc, [0, 1, 2], 2);

/// front insertion: entries = [new] ++ old; the index of `old` (built with
/// positions 0..n) is shifted up and position 0 is indexed, as
/// `push_entry_front` does.
macro_rules! i2_insert_front {
	($name:ident, $pat:expr, $n:expr) => {
		#[cfg(kani)]
		#[kani::proof]
		#[kani::unwind(5)]
		#[kani::stub(smallvec::SmallVec::try_grow, crate::verif::util::no_grow)]
		fn $name() {
			const N: usize = $n; // number of old entries
			const P: [usize; 3] = $pat; // pattern of the NEW list: P[0] is the front entry
			let cls = any_classes();
			let keys = keys_of(&P, &cls);
			let entries = [entry(keys[0]), entry(keys[1]), entry(keys[2])];
			// the old list is entries[1..=N]; its own pattern, renumbered
			let old_pat: [usize; 3] = [P[1], P[2], 3];
			let old_keys = [keys[1], keys[2], 0];
			let mut map = canonical(&old_pat, &old_keys, N);
			map.shift_up(0);
			let fresh = map.insert(&entries, 0);
			let mut seen = false;
			let mut j = 1;
			while j <= N {
				if P[j] == P[0] {
					seen = true;
				}
				j += 1;
			}
			assert!(fresh == !seen, "C06:insert-reports-whether-the-key-is-new");
			assert!(is_canonical(&map, &entries, &P, &cls, N + 1), "C06:index-canonical-after-front-insertion");
			assert!(hashes_fresh(&map, &keys), "C06:stored-hashes-match-representatives");
			kani::cover!(hash_of(cls[0]) == hash_of(cls[1]));
			kani::cover!(hash_of(cls[0]) != hash_of(cls[1]));
			core::mem::forget(map);
			core::mem::forget(entries);
		}
	};
}

i2_insert_front!(i2_insert_front_a, [0, 1, 2], 0);
i2_insert_front!(i2_insert_front_aa, [0, 0, 1], 1);
i2_insert_front!(i2_insert_front_ab, [0, 1, 2], 1);
i2_insert_front!(i2_insert_front_aaa, [0, 0, 0], 2);
i2_insert_front!(i2_insert_front_aab, [0, 0, 1], 2);
i2_insert_front!(i2_insert_front_aba, [0, 1, 0], 2);
i2_insert_front!(i2_insert_front_abb, [0, 1, 1], 2);
i2_insert_front!(i2_insert_front_abc, [0, 1, 2], 2);

/// removal of position i (symbolic) as `remove_at` does: remove(entries, i)
/// then shift_down(i), the entry vector shrinking afterwards.
macro_rules! i2_remove {
	($name:ident, $pat:expr, $n:expr) => {
		#[cfg(kani)]
		#[kani::proof]
		#[kani::unwind(5)]
		#[kani::stub(smallvec::SmallVec::try_grow, crate::verif::util::no_grow)]
		fn $name() {
			const N: usize = $n;
			const P: [usize; 3] = $pat;
			let cls = any_classes();
			let keys = keys_of(&P, &cls);
			let entries = [entry(keys[0]), entry(keys[1]), entry(keys[2])];
			let mut map = canonical(&P, &keys, N);
			let i: usize = kani::any();
			kani::assume(i < N);
			map.remove(&entries, i);
			map.shift_down(i);
			// the list after removal (pattern and keys)
			let mut ap: [usize; 3] = [3; 3];
			let mut ak = [0u8; 3];
			let mut m = 0;
			let mut j = 0;
			while j < 3 {
				if j < N && j != i {
					ap[m] = P[j];
					ak[m] = keys[j];
					m += 1;
				}
				j += 1;
			}
			let entries_after = [entry(ak[0]), entry(ak[1]), entry(ak[2])];
			assert!(is_canonical(&map, &entries_after, &ap, &cls, N - 1), "C06:index-canonical-after-removal");
			assert!(hashes_fresh(&map, &ak), "C06:stored-hashes-match-representatives");
			kani::cover!(i == 0);
			kani::cover!(i + 1 == N);
			core::mem::forget(map);
			core::mem::forget(entries);
			core::mem::forget(entries_after);
		}
	};
}

i2_remove!(i2_remove_a, [0, 1, 2], 1);
i2_remove!(i2_remove_aa, [0, 0, 1], 2);
i2_remove!(i2_remove_ab, [0, 1, 2], 2);
i2_remove!(i2_remove_aaa, [0, 0, 0], 3);
i2_remove!(i2_remove_aab, [0, 0, 1], 3);
i2_remove!(i2_remove_aba, [0, 1, 0], 3);
i2_remove!(i2_remove_abb, [0, 1, 1], 3);
i2_remove!(i2_remove_abc, [0, 1, 2], 3);

/// clear + rebuild (what `sort`/`canonicalize` do): the result is canonical
/// whatever the index held before.
macro_rules! i2_clear_rebuild {
	($name:ident, $pat:expr, $stale:expr) => {
		#[cfg(kani)]
		#[kani::proof]
		#[kani::unwind(5)]
		#[kani::stub(smallvec::SmallVec::try_grow, crate::verif::util::no_grow)]
		fn $name() {
			const P: [usize; 3] = $pat;
			const S: [usize; 3] = $stale;
			let cls = any_classes();
			let keys = keys_of(&P, &cls);
			let entries = [entry(keys[0]), entry(keys[1]), entry(keys[2])];
			let stale_cls = any_classes();
			let stale_keys = keys_of(&S, &stale_cls);
			let mut map = canonical(&S, &stale_keys, 3);
			map.clear();
			assert!(map.table.len() == 0, "C06:clear-empties-the-index");
			let mut i = 0;
			while i < 3 {
				map.insert(&entries, i);
				i += 1;
			}
			assert!(is_canonical(&map, &entries, &P, &cls, 3), "C06:index-canonical-after-rebuild");
			assert!(hashes_fresh(&map, &keys), "C06:stored-hashes-match-representatives");
			kani::cover!(hash_of(cls[0]) != hash_of(cls[1]));
			core::mem::forget(map);
			core::mem::forget(entries);
		}
	};
}

i2_clear_rebuild!(i2_clear_rebuild_aba, [0, 1, 0], [0, 0, 1]);
i2_clear_rebuild!(i2_clear_rebuild_abc, [0, 1, 2], [0, 1, 0]);
i2_clear_rebuild!(i2_clear_rebuild_aaa, [0, 0, 0], [0, 1, 2]);

