// Included into /repo/src/object/index_map.rs as `mod verif` under cfg(json_syntax_verif).
//
// C06 — the key index never goes stale. One-step (inductive) harnesses:
//   I1  `Indexes` primitives from an arbitrary state satisfying the
//       representation invariant  rep < other[0] < other[1] < ...
//   I2  `IndexMap` primitives from the canonical index of an arbitrary entry
//       list (built by the harness, so every consistent state is covered,
//       reachable or not), over the model table of /verif/incrate/lib.rs.
use super::{Entry, IndexMap, Indexes, Key};
use crate::verif::table::{DefaultHashBuilder, RawTable, CAP};
use crate::Value;
use core::hash::BuildHasher;

// ---------------------------------------------------------------------------
// I1

/// Abstract value of an `Indexes`: the set of positions as a bit mask;
/// `None` if the representation invariant is broken.
pub fn positions(ix: &Indexes) -> Option<u16> {
	if ix.rep >= 16 {
		return None;
	}
	let mut s: u16 = 1 << ix.rep;
	let mut last = ix.rep;
	let mut k = 0;
	while k < ix.other.len() {
		let o = ix.other[k];
		if o <= last || o >= 16 {
			return None;
		}
		s |= 1 << o;
		last = o;
		k += 1;
	}
	Some(s)
}

/// An arbitrary `Indexes` with `extra` redundant positions, all < 8.
#[cfg(kani)]
fn any_indexes(extra: usize) -> Indexes {
	let rep: usize = kani::any();
	kani::assume(rep < 8);
	let mut other = Vec::with_capacity(6);
	let mut last = rep;
	let mut k = 0;
	while k < extra {
		let o: usize = kani::any();
		kani::assume(o > last && o < 8);
		other.push(o);
		last = o;
		k += 1;
	}
	Indexes { rep, other }
}

fn shift_up_model(s: u16, i: usize) -> u16 {
	let low = s & ((1u16 << i) - 1);
	let high = s & !((1u16 << i) - 1);
	low | (high << 1)
}

fn shift_down_model(s: u16, i: usize) -> u16 {
	// positions > i move down by one; position i itself must be absent
	let low = s & ((1u16 << (i + 1)) - 1);
	let high = s & !((1u16 << (i + 1)) - 1);
	low | (high >> 1)
}

macro_rules! i1_indexes {
	($name:ident, $extra:expr) => {
		#[cfg(kani)]
		#[kani::proof]
		#[kani::unwind(7)]
		fn $name() {
			let mut ix = any_indexes($extra);
			let s = positions(&ix).unwrap();
			let i: usize = kani::any();
			kani::assume(i < 9);
			let op: u8 = kani::any();
			match op {
				0 => {
					ix.insert(i);
					assert!(positions(&ix) == Some(s | (1 << i)), "C06:indexes-insert-adds-the-position-keeps-order");
				}
				1 => {
					let r = ix.remove(i);
					if s == 1 << i {
						assert!(!r && positions(&ix) == Some(s), "C06:indexes-remove-keeps-the-last-position-and-says-so");
					} else {
						assert!(r && positions(&ix) == Some(s & !(1 << i)), "C06:indexes-remove-drops-exactly-the-position");
					}
				}
				2 => {
					ix.shift_up(i);
					assert!(positions(&ix) == Some(shift_up_model(s, i)), "C06:indexes-shift-up-moves-positions-at-or-after");
				}
				_ => {
					kani::assume(s & (1 << i) == 0); // the caller removes position i first (asserted in I2)
					ix.shift_down(i);
					assert!(positions(&ix) == Some(shift_down_model(s, i)), "C06:indexes-shift-down-moves-positions-after");
				}
			}
			assert!(ix.first() == (positions(&ix).unwrap().trailing_zeros() as usize), "C06:representative-is-the-first-position");
			assert!(ix.len() == positions(&ix).unwrap().count_ones() as usize, "C06:indexes-len");
			assert!(ix.is_redundant() == (ix.len() > 1), "C06:indexes-is-redundant");
			kani::cover!(op == 0 && i < ix.rep);
			kani::cover!(op == 1 && s != 1 << i && s & (1 << i) != 0);
			kani::cover!(op == 2);
			kani::cover!(op == 3);
			core::mem::forget(ix);
		}
	};
}

i1_indexes!(i1_indexes_1, 0);
i1_indexes!(i1_indexes_2, 1);
i1_indexes!(i1_indexes_3, 2);
i1_indexes!(i1_indexes_4, 3);

// ---------------------------------------------------------------------------
// I2

pub const KEYS: [&str; 4] = ["a", "b", "c", ""];

/// Key `k` of the four-key universe: "a", "c" and "" collide under the model
/// hasher, "b" does not.
pub fn key(k: u8) -> Key {
	Key::from(KEYS[(k & 3) as usize])
}

pub fn entry(k: u8) -> Entry {
	Entry::new(key(k), Value::Null)
}

pub fn hash_of(k: u8) -> u64 {
	DefaultHashBuilder.hash_one(KEYS[(k & 3) as usize])
}

/// The canonical index of `keys[..n]`: for every distinct key one `Indexes`
/// holding its positions in ascending order. Built by direct table writes.
pub fn canonical(keys: &[u8], n: usize) -> IndexMap {
	let mut table: RawTable<Indexes> = RawTable::default();
	let mut i = 0;
	while i < keys.len() {
		if i < n {
			let mut first = true;
			let mut j = 0;
			while j < keys.len() {
				if j < i && keys[j] == keys[i] {
					first = false;
				}
				j += 1;
			}
			if first {
				let mut other = Vec::with_capacity(4);
				let mut j = 0;
				while j < keys.len() {
					if j > i && j < n && keys[j] == keys[i] {
						other.push(j);
					}
					j += 1;
				}
				table.insert(hash_of(keys[i]), Indexes { rep: i, other }, |ix: &Indexes| hash_of(keys[ix.rep]));
			}
		}
		i += 1;
	}
	IndexMap {
		hash_builder: DefaultHashBuilder,
		table,
	}
}

/// `map` is exactly the canonical index of `keys[..n]`: every key query
/// answers like a linear scan and the table holds nothing else.
pub fn is_canonical(map: &IndexMap, entries: &[Entry], keys: &[u8], n: usize) -> bool {
	let mut distinct = 0;
	let mut q = 0u8;
	while q < 4 {
		let mut want: u16 = 0;
		let mut j = 0;
		while j < keys.len() {
			if j < n && keys[j] == q {
				want |= 1 << j;
			}
			j += 1;
		}
		match map.get(entries, KEYS[q as usize]) {
			None => {
				if want != 0 {
					return false;
				}
			}
			Some(ix) => {
				distinct += 1;
				if positions(ix) != Some(want) {
					return false;
				}
			}
		}
		q += 1;
	}
	map.table.len() == distinct
}

/// Stored hashes are those of the representative's key (what a real table
/// relies on when it grows).
pub fn hashes_fresh(map: &IndexMap, keys: &[u8]) -> bool {
	let mut i = 0;
	while i < CAP {
		if let Some((h, ix)) = map.table.slot(i) {
			if ix.rep >= keys.len() || *h != hash_of(keys[ix.rep]) {
				return false;
			}
		}
		i += 1;
	}
	true
}

#[cfg(kani)]
fn any_keys3() -> [u8; 3] {
	let k: [u8; 3] = [kani::any(), kani::any(), kani::any()];
	kani::assume(k[0] < 4 && k[1] < 4 && k[2] < 4);
	k
}

/// insert(entries, n) from the canonical index of entries[..n], n in 0..=2
macro_rules! i2_insert {
	($name:ident, $n:expr) => {
		#[cfg(kani)]
		#[kani::proof]
		#[kani::unwind(6)]
		fn $name() {
			const N: usize = $n;
			let keys = any_keys3();
			let entries = [entry(keys[0]), entry(keys[1]), entry(keys[2])];
			let mut map = canonical(&keys, N);
			assert!(is_canonical(&map, &entries, &keys, N), "C06:harness-builds-a-canonical-index");
			let fresh = map.insert(&entries, N);
			let mut seen = false;
			let mut j = 0;
			while j < N {
				if keys[j] == keys[N] {
					seen = true;
				}
				j += 1;
			}
			assert!(fresh == !seen, "C06:insert-reports-whether-the-key-is-new");
			assert!(is_canonical(&map, &entries, &keys, N + 1), "C06:index-canonical-after-append");
			assert!(hashes_fresh(&map, &keys), "C06:stored-hashes-match-representatives");
			assert!(map.contains_duplicate_keys() == (N + 1 > map.table.len()), "C06:contains-duplicate-keys");
			kani::cover!(N == 0 || seen);
			kani::cover!(!seen);
			core::mem::forget(map);
			core::mem::forget(entries);
		}
	};
}

i2_insert!(i2_insert_n0, 0);
i2_insert!(i2_insert_n1, 1);
i2_insert!(i2_insert_n2, 2);

/// front insertion: entries = [new] ++ old; index of old (positions 0..n) is
/// shifted up and position 0 is indexed, as `push_entry_front` does.
macro_rules! i2_insert_front {
	($name:ident, $n:expr) => {
		#[cfg(kani)]
		#[kani::proof]
		#[kani::unwind(6)]
		fn $name() {
			const N: usize = $n;
			let keys = any_keys3(); // keys[0] is the new front entry, keys[1..=N] the old list
			let entries = [entry(keys[0]), entry(keys[1]), entry(keys[2])];
			let old = [keys[1], keys[2], 0];
			let mut map = canonical(&old, N);
			map.shift_up(0);
			let fresh = map.insert(&entries, 0);
			let mut seen = false;
			let mut j = 1;
			while j <= N {
				if keys[j] == keys[0] {
					seen = true;
				}
				j += 1;
			}
			assert!(fresh == !seen, "C06:insert-reports-whether-the-key-is-new");
			assert!(is_canonical(&map, &entries, &keys, N + 1), "C06:index-canonical-after-front-insertion");
			assert!(hashes_fresh(&map, &keys), "C06:stored-hashes-match-representatives");
			kani::cover!(N == 0 || seen);
			kani::cover!(!seen);
			core::mem::forget(map);
			core::mem::forget(entries);
		}
	};
}

i2_insert_front!(i2_insert_front_n0, 0);
i2_insert_front!(i2_insert_front_n1, 1);
i2_insert_front!(i2_insert_front_n2, 2);

/// removal of position i from a 3-entry (or shorter) list, as `remove_at`
/// does: remove(entries, i) then shift_down(i), the entry vector shrinking
/// afterwards.
macro_rules! i2_remove {
	($name:ident, $n:expr) => {
		#[cfg(kani)]
		#[kani::proof]
		#[kani::unwind(6)]
		fn $name() {
			const N: usize = $n;
			let keys = any_keys3();
			let entries = [entry(keys[0]), entry(keys[1]), entry(keys[2])];
			let mut map = canonical(&keys, N);
			let i: usize = kani::any();
			kani::assume(i < N);
			map.remove(&entries, i);
			map.shift_down(i);
			// the list after removal
			let mut after = [0u8; 3];
			let mut m = 0;
			let mut j = 0;
			while j < N {
				if j != i {
					after[m] = keys[j];
					m += 1;
				}
				j += 1;
			}
			let entries_after = [entry(after[0]), entry(after[1]), entry(after[2])];
			assert!(is_canonical(&map, &entries_after, &after, N - 1), "C06:index-canonical-after-removal");
			assert!(hashes_fresh(&map, &after), "C06:stored-hashes-match-representatives");
			kani::cover!(N < 2 || (i == 0 && keys[0] == keys[1]));
			kani::cover!(N < 3 || (i == 1 && keys[0] == keys[2]));
			core::mem::forget(map);
			core::mem::forget(entries);
			core::mem::forget(entries_after);
		}
	};
}

i2_remove!(i2_remove_n1, 1);
i2_remove!(i2_remove_n2, 2);
i2_remove!(i2_remove_n3, 3);

/// clear + rebuild (what `sort` does): the result is canonical whatever the
/// index held before.
#[cfg(kani)]
#[kani::proof]
#[kani::unwind(6)]
fn i2_clear_rebuild() {
	let keys = any_keys3();
	let entries = [entry(keys[0]), entry(keys[1]), entry(keys[2])];
	let stale = any_keys3();
	let mut map = canonical(&stale, 3);
	map.clear();
	assert!(map.table.len() == 0, "C06:clear-empties-the-index");
	let mut i = 0;
	while i < 3 {
		map.insert(&entries, i);
		i += 1;
	}
	assert!(is_canonical(&map, &entries, &keys, 3), "C06:index-canonical-after-rebuild");
	assert!(hashes_fresh(&map, &keys), "C06:stored-hashes-match-representatives");
	kani::cover!(keys[0] == keys[2] && keys[1] != keys[0]);
	core::mem::forget(map);
	core::mem::forget(entries);
}
