// Included into /repo/src/object/mod.rs as `mod verif` under cfg(json_syntax_verif).
