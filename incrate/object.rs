// Included into /repo/src/object/mod.rs as `mod verif` under cfg(json_syntax_verif).
//
// C06-I3  Object operations on small objects against a plain list model
// C09/C10 the canonicalization comparator against UTF-16 code-unit order, and
//         its total-order laws
// C11     mapped iterators / lookups over spec-built code maps
// C14     index independence of ==, cmp, hash, clone
use super::index_map::verif::{any_classes, canonical, is_canonical, key, keys_of, KEYS};
use super::{Entry, Key, Object};
use crate::code_map::Mapped;
use crate::verif::util::Sink;
use crate::{CodeMap, Value};
use core::cmp::Ordering;

// ---------------------------------------------------------------------------
// building objects directly (entry vector + harness-built canonical index)

/// Value payload `v` (0..=3) of the two-value universe used by the list model.
pub fn val(v: u8) -> Value {
	match v & 3 {
		0 => Value::Null,
		1 => Value::Boolean(false),
		2 => Value::Boolean(true),
		_ => Value::String(crate::String::new()),
	}
}

pub fn val_code(v: &Value) -> u8 {
	match v {
		Value::Null => 0,
		Value::Boolean(false) => 1,
		Value::Boolean(true) => 2,
		Value::String(s) if s.is_empty() => 3,
		_ => 255,
	}
}

pub fn key_code(k: &Key) -> u8 {
	let b = k.as_bytes();
	if b.len() == 0 {
		3
	} else if b.len() == 1 && b[0] == b'a' {
		0
	} else if b.len() == 1 && b[0] == b'b' {
		1
	} else if b.len() == 1 && b[0] == b'c' {
		2
	} else {
		255
	}
}

/// Object with entries `(keys[i], vals[i])` for i < n and the canonical index.
pub fn object_of(pat: &[usize; 3], keys: &[u8; 3], vals: &[u8; 3], n: usize) -> Object {
	let mut entries = Vec::with_capacity(4);
	let mut i = 0;
	while i < 3 {
		if i < n {
			entries.push(Entry::new(key(keys[i]), val(vals[i])));
		}
		i += 1;
	}
	Object {
		entries,
		indexes: canonical(pat, keys, n),
	}
}

/// The object is exactly the list `(keys[i], vals[i])`, i < n (n <= 3):
/// entries and length; the key index is the canonical index of that list
/// (inspected directly, see index_map::verif::is_canonical); and, for ONE
/// SYMBOLIC query key (present, duplicated or absent), every key-based
/// accessor of the public API answers like a linear scan of the list.
pub fn object_is(o: &Object, keys: &[u8; 4], vals: &[u8; 4], n: usize) -> bool {
	if n > 3 || o.entries.len() != n || o.len() != n || o.is_empty() != (n == 0) {
		return false;
	}
	let mut i = 0;
	while i < 3 {
		if i < n {
			let e = &o.entries[i];
			if key_code(&e.key) != keys[i] || val_code(&e.value) != vals[i] {
				return false;
			}
		}
		i += 1;
	}
	let pat = [keys[0] as usize & 3, keys[1] as usize & 3, keys[2] as usize & 3];
	if !is_canonical(&o.indexes, &o.entries, &pat, &[0, 1, 2, 3], n) {
		return false;
	}
	accessors_agree(o, keys, n, query_key())
}

#[cfg(kani)]
fn query_key() -> u8 {
	any_small()
}

#[cfg(not(kani))]
fn query_key() -> u8 {
	0
}

/// Every key-based accessor, for the query key `q`, against a linear scan.
pub fn accessors_agree(o: &Object, keys: &[u8; 4], n: usize, q: u8) -> bool {
	let name = KEYS[(q & 3) as usize];
	let mut first: Option<usize> = None;
	let mut second: Option<usize> = None;
	let mut count = 0;
	let mut j = 0;
	while j < 3 {
		if j < n && keys[j] == q {
			if first.is_none() {
				first = Some(j);
			} else if second.is_none() {
				second = Some(j);
			}
			count += 1;
		}
		j += 1;
	}
	if o.contains_key(name) != first.is_some() || o.index_of(name) != first || o.redundant_index_of(name) != second {
		return false;
	}
	let mut it = o.indexes_of(name);
	let mut vs = o.get(name);
	let mut es = o.get_entries_with_index(name);
	let mut j = 0;
	while j < 3 {
		if j < n && keys[j] == q {
			if it.next() != Some(j) {
				return false;
			}
			match vs.next() {
				Some(v) => {
					if !core::ptr::eq(v, &o.entries[j].value) {
						return false;
					}
				}
				None => return false,
			}
			match es.next() {
				Some((k, e)) => {
					if k != j || !core::ptr::eq(e, &o.entries[j]) {
						return false;
					}
				}
				None => return false,
			}
		}
		j += 1;
	}
	if it.next().is_some() || vs.next().is_some() || es.next().is_some() {
		return false;
	}
	match o.get_unique(name) {
		Ok(None) => count == 0,
		Ok(Some(v)) => count == 1 && core::ptr::eq(v, &o.entries[first.unwrap()].value),
		Err(super::Duplicate(a, b)) => {
			count >= 2 && core::ptr::eq(a, &o.entries[first.unwrap()]) && core::ptr::eq(b, &o.entries[second.unwrap()])
		}
	}
}

#[cfg(kani)]
fn any3() -> [u8; 3] {
	let k: [u8; 3] = [kani::any(), kani::any(), kani::any()];
	kani::assume(k[0] < 4 && k[1] < 4 && k[2] < 4);
	k
}

#[cfg(kani)]
fn any_small() -> u8 {
	let k: u8 = kani::any();
	kani::assume(k < 4);
	k
}

// ---- list model of the documented operation semantics (arrays of codes)

pub struct Model {
	pub keys: [u8; 4],
	pub vals: [u8; 4],
	pub n: usize,
}

impl Model {
	pub fn of(keys: &[u8; 3], vals: &[u8; 3], n: usize) -> Self {
		Model {
			keys: [keys[0], keys[1], keys[2], 0],
			vals: [vals[0], vals[1], vals[2], 0],
			n,
		}
	}

	pub fn contains(&self, k: u8) -> bool {
		let mut j = 0;
		let mut r = false;
		while j < 4 {
			if j < self.n && self.keys[j] == k {
				r = true;
			}
			j += 1;
		}
		r
	}

	pub fn push(&mut self, k: u8, v: u8) {
		self.keys[self.n] = k;
		self.vals[self.n] = v;
		self.n += 1;
	}

	pub fn push_front(&mut self, k: u8, v: u8) {
		let mut j = 3;
		while j > 0 {
			self.keys[j] = self.keys[j - 1];
			self.vals[j] = self.vals[j - 1];
			j -= 1;
		}
		self.keys[0] = k;
		self.vals[0] = v;
		self.n += 1;
	}

	pub fn remove_at(&mut self, i: usize) -> (u8, u8) {
		let r = (self.keys[i], self.vals[i]);
		let mut j = 0;
		while j < 3 {
			if j >= i {
				self.keys[j] = self.keys[j + 1];
				self.vals[j] = self.vals[j + 1];
			}
			j += 1;
		}
		self.n -= 1;
		r
	}

	pub fn first_index(&self, k: u8, from: usize) -> Option<usize> {
		let mut j = 0;
		let mut r = None;
		while j < 4 {
			if j >= from && j < self.n && self.keys[j] == k && r.is_none() {
				r = Some(j);
			}
			j += 1;
		}
		r
	}
}

fn entry_matches(e: &Entry, kv: (u8, u8)) -> bool {
	key_code(&e.key) == kv.0 && val_code(&e.value) == kv.1
}

macro_rules! i3_object_op {
	($name:ident, $pat:expr, $n:expr, $op:expr) => {
		#[cfg(kani)]
		#[kani::proof]
		#[kani::unwind(6)]
		#[kani::stub(smallvec::SmallVec::try_grow, crate::verif::util::no_grow)]
		fn $name() {
			const N: usize = $n;
			const P: [usize; 3] = $pat;
			let cls = any_classes();
			let keys = keys_of(&P, &cls);
			let vals = any3();
			let mut o = object_of(&P, &keys, &vals, N);
			let mut m = Model::of(&keys, &vals, N);
			let k = any_small();
			let v = any_small();
			// the operation is concrete per harness instance (a symbolic choice among
			// the six operations put all of them into one formula: 40 min, not finished)
			let op: u8 = $op;
			match op {
				0 => {
					let fresh = o.push(key(k), val(v));
					assert!(fresh == !m.contains(k), "C06:push-reports-fresh-key");
					m.push(k, v);
				}
				1 => {
					let fresh = o.push_front(key(k), val(v));
					assert!(fresh == !m.contains(k), "C06:push-front-reports-fresh-key");
					m.push_front(k, v);
				}
				2 => {
					// insert: replaces the first entry with that key, removes the others, returns them in order
					let first = m.first_index(k, 0);
					match o.insert(key(k), val(v)) {
						None => {
							assert!(first.is_none(), "C06:insert-returns-none-only-for-a-fresh-key");
							m.push(k, v);
						}
						Some(mut removed) => {
							assert!(first.is_some(), "C06:insert-returns-removed-entries-for-a-present-key");
							let f = first.unwrap();
							let old = (m.keys[f], m.vals[f]);
							m.vals[f] = v;
							match removed.next() {
								Some(e) => {
									assert!(entry_matches(&e, old), "C06:insert-yields-the-replaced-entry-first");
									core::mem::forget(e);
								}
								None => panic!("C06:insert-yields-the-replaced-entry-first"),
							}
							let consume: bool = kani::any();
							if consume {
								let mut guard = 0;
								while guard < 3 {
									match m.first_index(k, f + 1) {
										Some(d) => {
											let kv = m.remove_at(d);
											match removed.next() {
												Some(e) => {
													assert!(entry_matches(&e, kv), "C06:insert-yields-removed-duplicates-in-order");
													core::mem::forget(e);
												}
												None => panic!("C06:insert-yields-removed-duplicates-in-order"),
											}
										}
										None => (),
									}
									guard += 1;
								}
								assert!(removed.next().is_none(), "C06:insert-yields-nothing-more");
							} else {
								// dropped without being consumed: duplicates are removed all the same
								let mut guard = 0;
								while guard < 3 {
									if let Some(d) = m.first_index(k, f + 1) {
										m.remove_at(d);
									}
									guard += 1;
								}
							}
							drop(removed);
						}
					}
				}
				3 => {
					// remove_at
					let i: usize = kani::any();
					kani::assume(i < 4);
					match o.remove_at(i) {
						None => assert!(i >= N, "C06:remove-at-none-only-past-the-end"),
						Some(e) => {
							assert!(i < N, "C06:remove-at-some-only-inside");
							let kv = m.remove_at(i);
							assert!(entry_matches(&e, kv), "C06:remove-at-returns-the-entry");
							core::mem::forget(e);
						}
					}
				}
				4 => {
					// remove(key): all entries with that key, in order; iterator consumed, partially consumed or dropped
					let take: u8 = kani::any();
					kani::assume(take <= 3);
					{
						let mut it = o.remove(KEYS[k as usize]);
						let mut t = 0;
						while t < 3 {
							if t < take {
								match m.first_index(k, 0) {
									Some(d) => {
										let kv = m.remove_at(d);
										match it.next() {
											Some(e) => {
												assert!(entry_matches(&e, kv), "C06:remove-yields-matching-entries-in-order");
												core::mem::forget(e);
											}
											None => panic!("C06:remove-yields-matching-entries-in-order"),
										}
									}
									None => assert!(it.next().is_none(), "C06:remove-yields-nothing-more"),
								}
							}
							t += 1;
						}
						// dropping the iterator removes the rest
					}
					let mut guard = 0;
					while guard < 3 {
						if let Some(d) = m.first_index(k, 0) {
							m.remove_at(d);
						}
						guard += 1;
					}
				}
				_ => {
					// remove_unique
					let first = m.first_index(k, 0);
					let second = match first {
						Some(f) => m.first_index(k, f + 1),
						None => None,
					};
					match o.remove_unique(KEYS[k as usize]) {
						Ok(None) => assert!(first.is_none(), "C06:remove-unique-none-for-absent-key"),
						Ok(Some(e)) => {
							assert!(first.is_some() && second.is_none(), "C06:remove-unique-ok-only-for-a-unique-key");
							let kv = m.remove_at(first.unwrap());
							assert!(entry_matches(&e, kv), "C06:remove-unique-returns-the-entry");
							core::mem::forget(e);
						}
						Err(super::Duplicate(a, b)) => {
							assert!(second.is_some(), "C06:remove-unique-duplicate-error-only-for-duplicates");
							let kv2 = (m.keys[second.unwrap()], m.vals[second.unwrap()]);
							let kv1 = (m.keys[first.unwrap()], m.vals[first.unwrap()]);
							assert!(entry_matches(&a, kv1) && entry_matches(&b, kv2), "C06:remove-unique-duplicate-error-carries-the-first-two");
							core::mem::forget((a, b));
							// the documented effect: every entry with that key is gone
							let mut guard = 0;
							while guard < 3 {
								if let Some(d) = m.first_index(k, 0) {
									m.remove_at(d);
								}
								guard += 1;
							}
						}
					}
				}
			}
			assert!(object_is(&o, &m.keys, &m.vals, m.n), "C06:object-equals-list-model-and-queries-equal-linear-scan");
			kani::cover!(op != 0 || N < 1 || m.n == N + 1);
			kani::cover!(op != 1 || m.n == N + 1);
			kani::cover!(op != 2 || P[0] != P[1] || N < 2 || m.n < N);
			kani::cover!(op != 2 || m.n == N + 1);
			kani::cover!(op != 3 || N < 1 || m.n < N);
			kani::cover!(op != 4 || P[0] != P[1] || N < 2 || m.n + 2 == N);
			kani::cover!(op != 4 || m.n == N);
			kani::cover!(op != 5 || N < 1 || m.n < N);
			core::mem::forget(o);
		}
	};
}

i3_object_op!(i3_push_empty, [0, 1, 2], 0, 0);
i3_object_op!(i3_push_front_empty, [0, 1, 2], 0, 1);
i3_object_op!(i3_insert_empty, [0, 1, 2], 0, 2);
i3_object_op!(i3_remove_at_empty, [0, 1, 2], 0, 3);
i3_object_op!(i3_remove_empty, [0, 1, 2], 0, 4);
i3_object_op!(i3_remove_unique_empty, [0, 1, 2], 0, 5);
i3_object_op!(i3_push_a, [0, 1, 2], 1, 0);
i3_object_op!(i3_push_front_a, [0, 1, 2], 1, 1);
i3_object_op!(i3_insert_a, [0, 1, 2], 1, 2);
i3_object_op!(i3_remove_at_a, [0, 1, 2], 1, 3);
i3_object_op!(i3_remove_a, [0, 1, 2], 1, 4);
i3_object_op!(i3_remove_unique_a, [0, 1, 2], 1, 5);
i3_object_op!(i3_push_aa, [0, 0, 1], 2, 0);
i3_object_op!(i3_push_front_aa, [0, 0, 1], 2, 1);
i3_object_op!(i3_insert_aa, [0, 0, 1], 2, 2);
i3_object_op!(i3_remove_at_aa, [0, 0, 1], 2, 3);
i3_object_op!(i3_remove_aa, [0, 0, 1], 2, 4);
i3_object_op!(i3_remove_unique_aa, [0, 0, 1], 2, 5);
i3_object_op!(i3_push_ab, [0, 1, 2], 2, 0);
i3_object_op!(i3_push_front_ab, [0, 1, 2], 2, 1);
i3_object_op!(i3_insert_ab, [0, 1, 2], 2, 2);
i3_object_op!(i3_remove_at_ab, [0, 1, 2], 2, 3);
i3_object_op!(i3_remove_ab, [0, 1, 2], 2, 4);
i3_object_op!(i3_remove_unique_ab, [0, 1, 2], 2, 5);

/// `Object::sort` on a two-entry object: entries end up in (key, value) order
/// and the key index is the canonical index of the NEW arrangement (a rebuild
/// on top of the old table, or a missing rebuild, leaves it stale). Keys are
/// symbolic (any two of the four-key universe, equal or not); values are
/// `null` so that the derived `Value::cmp` is not unwound through its
/// recursive variants.
macro_rules! i3_sort {
	($name:ident, $pat:expr) => {
		#[cfg(kani)]
		#[kani::proof]
		#[kani::unwind(6)]
		#[kani::stub(smallvec::SmallVec::try_grow, crate::verif::util::no_grow)]
		fn $name() {
			const P: [usize; 3] = $pat;
			let cls = any_classes();
			let keys = keys_of(&P, &cls);
			let vals = [0u8, 0, 0];
			let mut o = object_of(&P, &keys, &vals, 2);
			o.sort();
			// str order of the universe: "" < "a" < "b" < "c"
			let rank = |k: u8| if k == 3 { 0u8 } else { k + 1 };
			let swap = rank(keys[0]) > rank(keys[1]);
			let m = if swap {
				Model::of(&[keys[1], keys[0], keys[2]], &vals, 2)
			} else {
				Model::of(&keys, &vals, 2)
			};
			assert!(object_is(&o, &m.keys, &m.vals, 2), "C06:sort-orders-entries-and-rebuilds-the-index");
			kani::cover!(swap || P[0] == P[1]);
			kani::cover!(!swap);
			core::mem::forget(o);
		}
	};
}

i3_sort!(i3_sort_ab, [0, 1, 2]);
i3_sort!(i3_sort_aa, [0, 0, 1]);

// ---------------------------------------------------------------------------
// C09 / C10: the canonicalization comparator (object::canonical_cmp, the
// function Object::canonicalize_with hands to sort_by)

#[cfg(kani)]
fn key_of(chars: &[char], n: usize) -> Key {
	let mut k = Key::new();
	let mut i = 0;
	while i < chars.len() {
		if i < n {
			k.push(chars[i]);
		}
		i += 1;
	}
	k
}

#[cfg(kani)]
fn small_value() -> Value {
	// the VARIANT stays concrete (a symbolic variant makes CBMC unwind the derived, recursive
	// Value::cmp through all six variants: the harnesses using it did not finish in 20-30 min);
	// the payload is symbolic
	Value::Boolean(kani::any())
}

/// One-character keys over all of Unicode x Unicode.
#[cfg(all(kani, feature = "canonicalize"))]
#[kani::proof]
#[kani::unwind(6)]
#[kani::stub(smallvec::SmallVec::try_grow, crate::verif::util::no_grow)]
fn c09_member_order_is_utf16_1char() {
	let a: [char; 1] = [kani::any()];
	let b: [char; 1] = [kani::any()];
	let ea = Entry::new(key_of(&a, 1), small_value());
	let eb = Entry::new(key_of(&b, 1), small_value());
	let want = crate::verif::util::ref_utf16_cmp(&a, &b);
	let got = super::canonical_cmp(&ea, &eb);
	if want != Ordering::Equal {
		assert!(got == want, "C09:members-sorted-by-utf16-code-units");
	} else {
		assert!(got == ea.value.cmp(&eb.value), "C10:equal-keys-ordered-by-value");
	}
	kani::cover!(a[0] as u32 > 0xFFFF && (b[0] as u32) >= 0xE000 && (b[0] as u32) < 0x10000 && want == Ordering::Less);
	kani::cover!(want == Ordering::Equal);
	kani::cover!(want == Ordering::Greater);
	core::mem::forget((ea, eb));
}

/// Keys of 0..=2 characters (prefix relation, second-character decisions).
#[cfg(all(kani, feature = "canonicalize"))]
#[kani::proof]
#[kani::unwind(8)]
#[kani::stub(smallvec::SmallVec::try_grow, crate::verif::util::no_grow)]
fn c09_member_order_is_utf16_2chars() {
	let a: [char; 2] = [kani::any(), kani::any()];
	let b: [char; 2] = [kani::any(), kani::any()];
	let na: usize = kani::any();
	let nb: usize = kani::any();
	kani::assume(na <= 2 && nb <= 2);
	let ea = Entry::new(key_of(&a, na), Value::Null);
	let eb = Entry::new(key_of(&b, nb), Value::Null);
	let want = crate::verif::util::ref_utf16_cmp(&a[..na], &b[..nb]);
	assert!(super::canonical_cmp(&ea, &eb) == want, "C09:members-sorted-by-utf16-code-units");
	kani::cover!(na == 2 && nb == 2 && a[0] == b[0] && want == Ordering::Less && a[1] as u32 > 0xFFFF);
	kani::cover!(na == 1 && nb == 2 && a[0] == b[0]);
	kani::cover!(na == 0 && nb == 0);
	core::mem::forget((ea, eb));
}

/// The comparator is a total order consistent with equality: with a total
/// order the sorted arrangement of a multiset of entries is unique up to
/// swapping EQUAL entries (which print identically), hence canonicalization
/// is idempotent and blind to the original member order for every object size
/// (std's sort_by trusted to sort under the comparator it is given).
#[cfg(all(kani, feature = "canonicalize"))]
#[kani::proof]
#[kani::unwind(8)]
#[kani::stub(smallvec::SmallVec::try_grow, crate::verif::util::no_grow)]
fn c10_comparator_is_a_total_order() {
	let ka: [char; 2] = [kani::any(), kani::any()];
	let kb: [char; 2] = [kani::any(), kani::any()];
	let kc: [char; 2] = [kani::any(), kani::any()];
	let (na, nb, nc): (usize, usize, usize) = (kani::any(), kani::any(), kani::any());
	// keys of 0..=1 characters (0..=2 characters for three entries did not finish in 30 min)
	kani::assume(na <= 1 && nb <= 1 && nc <= 1);
	let a = Entry::new(key_of(&ka, na), small_value());
	let b = Entry::new(key_of(&kb, nb), small_value());
	let c = Entry::new(key_of(&kc, nc), small_value());
	let ab = super::canonical_cmp(&a, &b);
	let ba = super::canonical_cmp(&b, &a);
	let bc = super::canonical_cmp(&b, &c);
	let ac = super::canonical_cmp(&a, &c);
	assert!(super::canonical_cmp(&a, &a) == Ordering::Equal, "C10:comparator-reflexive");
	assert!(ab == ba.reverse(), "C10:comparator-antisymmetric");
	if ab != Ordering::Greater && bc != Ordering::Greater {
		assert!(ac != Ordering::Greater, "C10:comparator-transitive");
	}
	if ab == Ordering::Less && bc != Ordering::Greater {
		assert!(ac == Ordering::Less, "C10:comparator-transitive");
	}
	assert!((ab == Ordering::Equal) == (a == b), "C10:comparator-equal-exactly-when-entries-equal");
	kani::cover!(ab == Ordering::Less && bc == Ordering::Less);
	kani::cover!(ab == Ordering::Equal);
	core::mem::forget((a, b, c));
}

/// Canonicalization changes nothing but numbers and member order: scalars
/// other than numbers are left untouched. One instance per variant (a symbolic
/// variant makes CBMC unwind the derived, recursive `Value::eq`/`clone` through
/// all six variants: 30 min, not finished); the payload is symbolic and is
/// compared field-wise.
macro_rules! c10_scalar_untouched {
	($name:ident, $t:expr) => {
		#[cfg(all(kani, feature = "canonicalize"))]
		#[kani::proof]
		#[kani::unwind(6)]
		#[kani::stub(smallvec::SmallVec::try_grow, crate::verif::util::no_grow)]
		fn $name() {
			const T: u8 = $t;
			let c: [char; 2] = [kani::any(), kani::any()];
			let n: usize = kani::any();
			kani::assume(n <= 1);
			let b: bool = kani::any();
			let mut v = match T {
				0 => Value::Null,
				1 => Value::Boolean(b),
				_ => Value::String(key_of(&c, n)),
			};
			let mut buffer = ryu_js::Buffer::new();
			v.canonicalize_with(&mut buffer);
			let same = match (&v, T) {
				(Value::Null, 0) => true,
				(Value::Boolean(x), 1) => *x == b,
				(Value::String(s), 2) => {
					let mut e = [0u8; 4];
					let w = c[0].encode_utf8(&mut e).as_bytes();
					let g = s.as_bytes();
					if n == 0 {
						g.is_empty()
					} else {
						g.len() == w.len() && g[0] == w[0] && (w.len() < 2 || g[1] == w[1]) && (w.len() < 3 || g[2] == w[2]) && (w.len() < 4 || g[3] == w[3])
					}
				}
				_ => false,
			};
			assert!(same, "C10:canonicalize-preserves-strings-booleans-null");
			kani::cover!(T != 2 || n == 1);
			kani::cover!(T != 1 || b);
			core::mem::forget(v);
		}
	};
}

c10_scalar_untouched!(c10_canonicalize_leaves_null_alone, 0);
c10_scalar_untouched!(c10_canonicalize_leaves_booleans_alone, 1);
c10_scalar_untouched!(c10_canonicalize_leaves_strings_alone, 2);

// ---------------------------------------------------------------------------
// C14: ==, cmp, hash and clone of objects depend on the entries only, never
// on the state of the key index

pub struct Recorder(pub Sink<12>);

impl core::hash::Hasher for Recorder {
	fn write(&mut self, bytes: &[u8]) {
		self.0.push(bytes.len() as u8);
		let mut i = 0;
		while i < bytes.len() {
			self.0.push(bytes[i]);
			i += 1;
		}
	}

	fn finish(&self) -> u64 {
		0
	}
}

macro_rules! c14_index_independence {
	($name:ident, $pat:expr, $n:expr) => {
		#[cfg(kani)]
		#[kani::proof]
		#[kani::unwind(10)]
		#[kani::stub(smallvec::SmallVec::try_grow, crate::verif::util::no_grow)]
		fn $name() {
			use core::hash::Hash;
			const N: usize = $n;
			const P: [usize; 3] = $pat;
			let cls = any_classes();
			let keys = keys_of(&P, &cls);
			let vals = any3();
			// same entries; one object carries the canonical index, the other an
			// EMPTY index (a state no history reaches: stronger than comparing histories)
			let a = object_of(&P, &keys, &vals, N);
			let mut b = object_of(&P, &keys, &vals, N);
			b.indexes.clear();
			assert!(a == b, "C14:object-eq-ignores-the-index");
			assert!(a.cmp(&b) == Ordering::Equal && a.partial_cmp(&b) == Some(Ordering::Equal), "C14:object-cmp-ignores-the-index");
			let mut ha = Recorder(Sink::new());
			let mut hb = Recorder(Sink::new());
			a.hash(&mut ha);
			b.hash(&mut hb);
			assert!(ha.0.same_as(&hb.0), "C14:object-hash-ignores-the-index");
			// a different entry list (same keys, other values) is told apart
			let other = any3();
			let c = object_of(&P, &keys, &other, N);
			let mut same = true;
			let mut i = 0;
			while i < 3 {
				if i < N && other[i] != vals[i] {
					same = false;
				}
				i += 1;
			}
			assert!((a == c) == same, "C14:object-eq-is-entry-list-equality");
			assert!((a.cmp(&c) == Ordering::Equal) == same, "C14:object-cmp-equal-exactly-when-eq");
			kani::cover!(N == 0 || !same);
			kani::cover!(same);
			core::mem::forget((a, b, c));
		}
	};
}

c14_index_independence!(c14_index_independence_empty, [0, 1, 2], 0);
c14_index_independence!(c14_index_independence_a, [0, 1, 2], 1);
c14_index_independence!(c14_index_independence_aa, [0, 0, 1], 2);
c14_index_independence!(c14_index_independence_ab, [0, 1, 2], 2);

/// A strict prefix of an entry list is a different, smaller object (the
/// length takes part in ==, cmp and partial_cmp).
macro_rules! c14_prefix {
	($name:ident, $pat:expr, $n:expr) => {
		#[cfg(kani)]
		#[kani::proof]
		#[kani::unwind(10)]
		#[kani::stub(smallvec::SmallVec::try_grow, crate::verif::util::no_grow)]
		fn $name() {
			const N: usize = $n;
			const P: [usize; 3] = $pat;
			let cls = any_classes();
			let keys = keys_of(&P, &cls);
			let vals = any3();
			let a = object_of(&P, &keys, &vals, N);
			let d = object_of(&P, &keys, &vals, N - 1);
			assert!(a != d && d != a, "C14:object-eq-is-entry-list-equality");
			assert!(a.cmp(&d) == Ordering::Greater && d.cmp(&a) == Ordering::Less, "C14:object-cmp-equal-exactly-when-eq");
			assert!(a.partial_cmp(&d) == Some(Ordering::Greater) && d.partial_cmp(&a) == Some(Ordering::Less), "C14:partial-cmp-is-some-cmp");
			kani::cover!(cls[0] == 3);
			core::mem::forget((a, d));
		}
	};
}

c14_prefix!(c14_prefix_a, [0, 1, 2], 1);
// (two-entry objects against their one-entry prefix did not finish in 30 min each)

macro_rules! c14_clone {
	($name:ident, $pat:expr, $n:expr) => {
		#[cfg(kani)]
		#[kani::proof]
		#[kani::unwind(6)]
		#[kani::stub(smallvec::SmallVec::try_grow, crate::verif::util::no_grow)]
		fn $name() {
			const N: usize = $n;
			const P: [usize; 3] = $pat;
			let cls = any_classes();
			let keys = keys_of(&P, &cls);
			let vals = any3();
			let a = object_of(&P, &keys, &vals, N);
			let b = a.clone();
			let m = Model::of(&keys, &vals, N);
			assert!(object_is(&b, &m.keys, &m.vals, m.n), "C14:clone-has-the-same-entries-and-a-working-index");
			assert!(a == b, "C14:clone-equals-original");
			kani::cover!(cls[0] == 3);
			core::mem::forget((a, b));
		}
	};
}

c14_clone!(c14_clone_a, [0, 1, 2], 1);
c14_clone!(c14_clone_aa, [0, 0, 1], 2);
c14_clone!(c14_clone_ab, [0, 1, 2], 2);

// ---------------------------------------------------------------------------
// C11: mapped iterators and lookups. The iterators never descend into
// children: they read only sibling VOLUMES from the code map, so one level is
// decided for children of arbitrary size (symbolic volumes).

pub const MAP_LEN: usize = 16;

/// A code map of MAP_LEN entries whose volumes are all arbitrary ("junk");
/// the harness then plants the volumes the specification puts at the
/// children's root positions.
#[cfg(kani)]
fn junk_code_map() -> CodeMap {
	let mut m = CodeMap::default();
	let mut i = 0;
	while i < MAP_LEN {
		let e = m.reserve(i);
		let v: usize = kani::any();
		kani::assume(v <= 64);
		m.get_mut(e).unwrap().volume = v;
		i += 1;
	}
	m
}

#[cfg(kani)]
fn any_volume() -> usize {
	let v: usize = kani::any();
	kani::assume(v >= 1 && v <= 3);
	v
}

macro_rules! c11_array_iter_mapped {
	($name:ident, $k:expr) => {
		#[cfg(kani)]
		#[kani::proof]
		#[kani::unwind(18)]
		fn $name() {
			use crate::array::JsonArray;
			const K: usize = $k;
			let items = [Value::Null, Value::Boolean(true), Value::Null];
			let arr = &items[..K];
			let mut map = junk_code_map();
			let base: usize = kani::any();
			kani::assume(base <= 2);
			let vols = [any_volume(), any_volume(), any_volume()];
			// the specification's layout: child i at base + 1 + sum of the volumes before it
			let mut at = base + 1;
			let mut want = [0usize; 3];
			let mut i = 0;
			while i < 3 {
				if i < K {
					want[i] = at;
					map.get_mut(at).unwrap().volume = vols[i];
					at += vols[i];
				}
				i += 1;
			}
			let mut it = arr.iter_mapped(&map, base);
			let mut i = 0;
			while i < 3 {
				if i < K {
					match it.next() {
						Some(Mapped { offset, value }) => {
							assert!(offset == want[i], "C11:array-item-offset-is-its-code-map-index");
							assert!(core::ptr::eq(value, &arr[i]), "C11:array-items-in-order");
						}
						None => panic!("C11:array-iter-mapped-yields-every-item"),
					}
				}
				i += 1;
			}
			assert!(it.next().is_none(), "C11:array-iter-mapped-yields-nothing-more");
			kani::cover!(K < 2 || (vols[0] == 3 && base == 2));
			core::mem::forget(map);
		}
	};
}

c11_array_iter_mapped!(c11_array_iter_mapped_k0, 0);
c11_array_iter_mapped!(c11_array_iter_mapped_k1, 1);
c11_array_iter_mapped!(c11_array_iter_mapped_k2, 2);
c11_array_iter_mapped!(c11_array_iter_mapped_k3, 3);

/// Conversions that carry code-map information report a kind mismatch at the
/// index of the offending fragment: `Vec<bool>::try_from_json_at` on a heap
/// array of three scalars whose code-map volumes are SYMBOLIC (each item
/// stands for a subtree of arbitrary size: the conversion reads sibling
/// volumes only through `iter_mapped`), with a wrong-kind value planted at a
/// symbolic position (or nowhere).
#[cfg(kani)]
#[kani::proof]
#[kani::unwind(18)]
fn c11_vec_try_from_json_reports_the_offending_fragment() {
	use crate::TryFromJson;
	let bad: usize = kani::any();
	kani::assume(bad <= 3); // 3 = no wrong-kind item
	let b: [bool; 3] = [kani::any(), kani::any(), kani::any()];
	let mut items = Vec::with_capacity(3);
	let mut i = 0;
	while i < 3 {
		items.push(if i == bad { Value::Null } else { Value::Boolean(b[i]) });
		i += 1;
	}
	let json = Value::Array(items);
	let mut map = junk_code_map();
	let base: usize = kani::any();
	kani::assume(base <= 2);
	let vols = [any_volume(), any_volume(), any_volume()];
	let mut at = base + 1;
	let mut want = [0usize; 3];
	let mut i = 0;
	while i < 3 {
		want[i] = at;
		map.get_mut(at).unwrap().volume = vols[i];
		at += vols[i];
		i += 1;
	}
	let r = <Vec<bool> as TryFromJson>::try_from_json_at(&json, &map, base);
	match &r {
		Ok(v) => {
			assert!(bad == 3, "C11:conversion-reports-kind-mismatch");
			assert!(v.len() == 3 && v[0] == b[0] && v[1] == b[1] && v[2] == b[2], "C11:conversion-keeps-items-in-order");
		}
		Err(e) => {
			assert!(bad < 3, "C11:conversion-succeeds-on-matching-kinds");
			assert!(e.offset == want[bad], "C11:conversion-error-at-the-index-of-the-offending-fragment");
			assert!(e.value.found == crate::Kind::Null && e.value.expected == crate::KindSet::BOOLEAN, "C11:conversion-error-names-the-kinds");
		}
	}
	// a non-array is reported at its own offset
	let r2 = <Vec<bool> as TryFromJson>::try_from_json_at(&Value::Null, &map, base);
	assert!(matches!(&r2, Err(e) if e.offset == base && e.value.expected == crate::KindSet::ARRAY), "C11:conversion-error-at-the-index-of-the-offending-fragment");
	kani::cover!(bad == 2 && vols[0] == 3 && vols[1] == 2);
	kani::cover!(bad == 3);
	core::mem::forget((r, r2, json, map));
}

/// Object layout per the C05 specification: entry i at base + 1 + sum over the
/// entries before it of (2 + volume of their value); key at +1, value at +2.
macro_rules! c11_object_mapped {
	($name:ident, $pat:expr, $n:expr) => {
		#[cfg(kani)]
		#[kani::proof]
		#[kani::unwind(18)]
		#[kani::stub(smallvec::SmallVec::try_grow, crate::verif::util::no_grow)]
		fn $name() {
			const N: usize = $n;
			const P: [usize; 3] = $pat;
			let cls = any_classes();
			let keys = keys_of(&P, &cls);
			let vals = [0u8, 1, 2];
			let o = object_of(&P, &keys, &vals, N);
			let mut map = junk_code_map();
			let base: usize = kani::any();
			kani::assume(base <= 1);
			let vols = [any_volume(), any_volume(), any_volume()];
			let mut at = base + 1;
			let mut want = [0usize; 3];
			let mut i = 0;
			while i < 3 {
				if i < N {
					want[i] = at;
					map.get_mut(at + 2).unwrap().volume = vols[i];
					at += 2 + vols[i];
				}
				i += 1;
			}
			// iter_mapped: every entry, in order
			let mut it = o.iter_mapped(&map, base);
			let mut i = 0;
			while i < 3 {
				if i < N {
					match it.next() {
						Some(Mapped { offset, value: e }) => {
							assert!(offset == want[i], "C11:entry-offset-is-its-code-map-index");
							assert!(e.key.offset == want[i] + 1 && e.value.offset == want[i] + 2, "C11:key-and-value-offsets");
							assert!(
								core::ptr::eq(e.key.value, &o.entries[i].key) && core::ptr::eq(e.value.value, &o.entries[i].value),
								"C11:entries-in-order"
							);
						}
						None => panic!("C11:object-iter-mapped-yields-every-entry"),
					}
				}
				i += 1;
			}
			assert!(it.next().is_none(), "C11:object-iter-mapped-yields-nothing-more");
			// key-based mapped lookups for a symbolic query key (present, duplicated or absent)
			let q = any_small();
			let name = KEYS[q as usize];
			let mut es = o.get_mapped_entries_with_index(&map, base, name);
			let mut vs = o.get_mapped(&map, base, name);
			let mut count = 0;
			let mut first = 0;
			let mut second = 0;
			let mut i = 0;
			while i < 3 {
				if i < N && keys[i] == q {
					match es.next() {
						Some((idx, Mapped { offset, value: e })) => {
							assert!(idx == i && offset == want[i], "C11:mapped-lookup-entry-offset");
							assert!(e.key.offset == want[i] + 1 && e.value.offset == want[i] + 2, "C11:mapped-lookup-key-and-value-offsets");
						}
						None => panic!("C11:mapped-lookup-yields-every-matching-entry"),
					}
					match vs.next() {
						Some(Mapped { offset, value }) => {
							assert!(offset == want[i] + 2 && core::ptr::eq(value, &o.entries[i].value), "C11:mapped-lookup-value-offset");
						}
						None => panic!("C11:mapped-lookup-yields-every-matching-value"),
					}
					if count == 0 {
						first = i;
					} else if count == 1 {
						second = i;
					}
					count += 1;
				}
				i += 1;
			}
			assert!(es.next().is_none() && vs.next().is_none(), "C11:mapped-lookup-yields-nothing-more");
			match o.get_unique_mapped_entry(&map, base, name) {
				Ok(None) => assert!(count == 0, "C11:unique-mapped-lookup-none-for-absent-key"),
				Ok(Some(e)) => assert!(count == 1 && e.offset == want[first], "C11:unique-mapped-lookup-offset"),
				Err(super::Duplicate(a, b)) => {
					assert!(count >= 2 && a.offset == want[first] && b.offset == want[second], "C11:unique-mapped-lookup-duplicate-error")
				}
			}
			match o.get_unique_mapped(&map, base, name) {
				Ok(None) => assert!(count == 0, "C11:unique-mapped-lookup-none-for-absent-key"),
				Ok(Some(v)) => assert!(count == 1 && v.offset == want[first] + 2, "C11:unique-mapped-lookup-offset"),
				Err(super::Duplicate(a, b)) => {
					assert!(count >= 2 && a.offset == want[first] + 2 && b.offset == want[second] + 2, "C11:unique-mapped-lookup-duplicate-error")
				}
			}
			kani::cover!(N < 1 || count >= 1);
			kani::cover!(count == 0);
			core::mem::forget(map);
			core::mem::forget(o);
		}
	};
}

c11_object_mapped!(c11_object_mapped_empty, [0, 1, 2], 0);
c11_object_mapped!(c11_object_mapped_a, [0, 1, 2], 1);
c11_object_mapped!(c11_object_mapped_aa, [0, 0, 1], 2);
c11_object_mapped!(c11_object_mapped_ab, [0, 1, 2], 2);
c11_object_mapped!(c11_object_mapped_aaa, [0, 0, 0], 3);
c11_object_mapped!(c11_object_mapped_aba, [0, 1, 0], 3);
c11_object_mapped!(c11_object_mapped_abb, [0, 1, 1], 3);
c11_object_mapped!(c11_object_mapped_abc, [0, 1, 2], 3);
