// Included into /repo/src/parse/mod.rs as `mod verif` under cfg(json_syntax_verif).
