// Included into /repo/src/parse/mod.rs as `mod verif` under cfg(json_syntax_verif).
//
// In-crate harnesses for the units the parser is built from. Being a child
// module of `parse`, this code sees `Parser`'s private state (position,
// pending look-ahead, code map) and the private fragment parsers.
//
// Each harness drives one REAL unit on a symbolic character array and compares
// verdict, value, consumed length, look-ahead, code-map entry and error with a
// flat reference automaton written from RFC 8259. Assertion labels carry the
// property they belong to (C01 acceptance, C02 decoding, C05 code map, C07
// error position, C12 options); ./check attributes failures by label.

use super::{array, object, value::Fragment, Context, Error, Options, Parse, Parser};
use crate::verif::util::{utf8_len, Sink};
use crate::{NumberBuf, Value};
use core::cell::Cell;
use core::convert::Infallible;
use decoded_char::DecodedChar;
use locspan::Meta;

// ---------------------------------------------------------------------------
// driving the real parser on a character array

pub struct Feed<'a> {
	chars: &'a [char],
	next: usize,
	pulled: &'a Cell<usize>,
}

impl<'a> Iterator for Feed<'a> {
	type Item = Result<DecodedChar, Infallible>;

	fn next(&mut self) -> Option<Self::Item> {
		if self.next < self.chars.len() {
			let c = self.chars[self.next];
			self.next += 1;
			self.pulled.set(self.pulled.get() + 1);
			Some(Ok(DecodedChar::from_utf8(c)))
		} else {
			None
		}
	}
}

pub type P<'a> = Parser<Feed<'a>, Infallible>;

/// A parser that has already consumed `base` bytes and recorded `pre` code-map
/// entries (any state a prefix of a document can leave behind).
pub fn parser_at<'a>(chars: &'a [char], pulled: &'a Cell<usize>, base: usize, pre: usize, options: Options) -> P<'a> {
	let mut p = Parser::new_with(
		Feed {
			chars,
			next: 0,
			pulled,
		},
		options,
	);
	p.position = base;
	let mut i = 0;
	while i < pre {
		let e = p.code_map.reserve(0);
		p.code_map.get_mut(e).unwrap().volume = 1;
		i += 1;
	}
	p
}

/// Byte offset of character index `i` (reference UTF-8 lengths). Loop-free on
/// purpose: Kani has a single unwind bound per harness, and a 24-iteration
/// helper loop would force the parser's own loops to be unwound 24 times too.
pub fn off(a: &[char], base: usize, i: usize) -> usize {
	let mut o = base;
	macro_rules! step {
		($($j:expr),*) => { $( if $j < i && $j < a.len() { o += utf8_len(a[$j]); } )* };
	}
	step!(0, 1, 2, 3, 4, 5, 6, 7, 8, 9, 10, 11, 12, 13, 14, 15, 16, 17, 18, 19, 20, 21, 22, 23);
	assert!(a.len() <= 24);
	o
}

pub fn at(a: &[char], i: usize) -> Option<char> {
	if i < a.len() {
		Some(a[i])
	} else {
		None
	}
}

pub fn is_unexpected(e: &Error<Infallible>, pos: usize, c: Option<char>) -> bool {
	match e {
		Error::Unexpected(p, x) => *p == pos && *x == c,
		_ => false,
	}
}

/// The entry `i` of the code map is closed with exactly this span and volume.
pub fn entry_is(p: &P, i: usize, start: usize, end: usize, volume: usize) -> bool {
	match p.code_map.as_slice().get(i) {
		Some(e) => e.span.start() == start && e.span.end() == end && e.volume == volume,
		None => false,
	}
}

pub fn ws(c: char) -> bool {
	c == ' ' || c == '\t' || c == '\n' || c == '\r'
}

/// RFC 8259 follow sets of a value, per context (reference).
pub fn ref_follows(ctx: u8, c: char) -> bool {
	ws(c)
		|| match ctx {
			0 => false,                // top level
			1 => c == ',' || c == ']', // array item
			2 => c == ':',             // object key
			_ => c == ',' || c == '}', // object value
		}
}

pub fn ctx_of(i: u8) -> Context {
	match i {
		0 => Context::None,
		1 => Context::Array,
		2 => Context::ObjectKey,
		_ => Context::ObjectValue,
	}
}

#[cfg(kani)]
pub fn any_ctx() -> u8 {
	let c: u8 = kani::any();
	kani::assume(c < 4);
	c
}

#[cfg(kani)]
pub fn any_options() -> Options {
	Options {
		accept_truncated_surrogate_pair: kani::any(),
		accept_invalid_codepoints: kani::any(),
	}
}

#[cfg(kani)]
pub fn any_base() -> usize {
	let b: usize = kani::any();
	kani::assume(b <= 1 << 20);
	b
}

#[cfg(kani)]
pub fn any_chars<const N: usize>() -> [char; N] {
	core::array::from_fn(|_| kani::any())
}

/// Six symbolic characters without a generator loop (keeps the unwind bound
/// of the harness equal to what the parser's own loop needs).
#[cfg(kani)]
pub fn any_chars10() -> [char; 10] {
	[
		kani::any(), kani::any(), kani::any(), kani::any(), kani::any(),
		kani::any(), kani::any(), kani::any(), kani::any(), kani::any(),
	]
}

#[cfg(kani)]
pub fn any_chars6() -> [char; 6] {
	[kani::any(), kani::any(), kani::any(), kani::any(), kani::any(), kani::any()]
}

// ---------------------------------------------------------------------------
// P0: positions advance by the SOURCE length of each character (the length
// recorded in `DecodedChar`, which differs from the UTF-8 length for UTF-16 or
// Latin-1 sources), for every primitive that consumes input.

#[cfg(kani)]
#[kani::proof]
#[kani::unwind(5)]
fn p0_position_advances_by_source_length() {
	let c: [char; 3] = [kani::any(), kani::any(), kani::any()];
	let l: [usize; 3] = [kani::any(), kani::any(), kani::any()];
	kani::assume(l[0] >= 1 && l[0] <= 4 && l[1] >= 1 && l[1] <= 4 && l[2] >= 1 && l[2] <= 4);
	let src = [DecodedChar::new(c[0], l[0]), DecodedChar::new(c[1], l[1]), DecodedChar::new(c[2], l[2])];
	let base = any_base();
	let mut p: Parser<_, Infallible> = Parser::new(src.iter().map(|d| Ok(*d)));
	p.position = base;
	// peek does not move
	let k = p.peek_char();
	assert!(matches!(k, Ok(Some(x)) if x == c[0]) && p.position == base, "C05:peek-does-not-advance");
	// next_char reports the position BEFORE the character and advances by its source length
	let r = p.next_char();
	assert!(matches!(r, Ok((q, Some(x))) if q == base && x == c[0]), "C07:next-char-reports-the-pre-consumption-position");
	assert!(p.position == base + l[0], "C05:position-advances-by-the-source-length-of-the-character");
	// whitespace skipping advances by source lengths as well and leaves the first non-blank pending
	let r = p.skip_whitespaces();
	assert!(r.is_ok(), "C01:skip-whitespaces-total");
	let mut want = base + l[0];
	let mut left = 1;
	if ws(c[1]) {
		want += l[1];
		left = 2;
		if ws(c[2]) {
			want += l[2];
			left = 3;
		}
	}
	assert!(p.position == want, "C05:position-advances-by-the-source-length-of-the-character");
	let i = p.begin_fragment();
	let r = p.next_char();
	if left < 3 {
		assert!(matches!(r, Ok((q, Some(x))) if q == want && x == c[left]), "C07:next-char-reports-the-pre-consumption-position");
		assert!(p.position == want + l[left], "C05:position-advances-by-the-source-length-of-the-character");
	} else {
		assert!(matches!(r, Ok((q, None)) if q == want) && p.position == want, "C07:end-of-input-reported-at-the-input-length");
	}
	p.end_fragment(i);
	let e = p.code_map.as_slice()[i];
	assert!(e.span.start() == want && e.span.end() == p.position && e.volume == 1, "C05:fragment-span-in-source-offsets");
	kani::cover!(left == 3);
	kani::cover!(left == 1 && l[1] != crate::verif::util::utf8_len(c[1]));
	core::mem::forget(p);
}

// ---------------------------------------------------------------------------
// EP: option plumbing of the twelve entry points. A probe type whose `parse_in`
// returns the options (and start position) the entry point configured the
// `Parser` with is pushed through every provided method of the REAL `Parse`
// trait: the entry points without an options argument must be strict, the
// `_with` ones must hand over exactly the options they were given.

pub struct Probe {
	opts: Options,
	position: usize,
	first: Option<char>,
}

impl Parse for Probe {
	fn parse_in<C, E>(parser: &mut Parser<C, E>, _context: Context) -> Result<Meta<Self, usize>, Error<E>>
	where
		C: Iterator<Item = Result<DecodedChar, E>>,
	{
		let i = parser.begin_fragment();
		let first = parser.peek_char()?;
		Ok(Meta(
			Probe {
				opts: parser.options,
				position: parser.position,
				first,
			},
			i,
		))
	}
}

#[cfg(kani)]
#[kani::proof]
#[kani::unwind(4)]
fn ep_options_reach_the_parser_unchanged() {
	let given = any_options();
	let strict = Options::strict();
	let b: [u8; 1] = [kani::any()];
	kani::assume(b[0] < 0x80);
	let s = unsafe { core::str::from_utf8_unchecked(&b) };
	let chars = || b.iter().map(|x| *x as char);
	let which: u8 = kani::any();
	kani::assume(which < 12);
	let (r, with): (Result<(Probe, crate::CodeMap), Error>, bool) = match which {
		0 => (Probe::parse_str(s), false),
		1 => (Probe::parse_str_with(s, given), true),
		2 => (Probe::parse_infallible_utf8(chars()), false),
		3 => (Probe::parse_utf8_infallible_with(chars(), given), true),
		4 => (Probe::parse_utf8(chars().map(Ok::<char, Infallible>)), false),
		5 => (Probe::parse_utf8_with(chars().map(Ok::<char, Infallible>), given), true),
		6 => (Probe::parse_infallible(chars().map(DecodedChar::from_utf8)), false),
		7 => (Probe::parse_infallible_with(chars().map(DecodedChar::from_utf8), given), true),
		8 => (Probe::parse(chars().map(|c| Ok::<DecodedChar, Infallible>(DecodedChar::from_utf8(c)))), false),
		9 => (Probe::parse_with(chars().map(|c| Ok::<DecodedChar, Infallible>(DecodedChar::from_utf8(c))), given), true),
		10 => (Probe::parse_slice(&b), false),
		_ => (Probe::parse_slice_with(&b, given), true),
	};
	match &r {
		Ok((p, cm)) => {
			if with {
				assert!(p.opts == given, "C12:with-entry-points-obey-exactly-the-options-given");
			} else {
				assert!(p.opts == strict, "C12:entry-points-without-options-are-strict");
			}
			assert!(p.position == 0 && p.first == Some(b[0] as char), "C01:entry-points-start-at-the-first-character");
			assert!(cm.len() == 1, "C05:entry-points-return-the-parser-code-map");
		}
		Err(_) => panic!("C01:entry-points-run-the-unit"),
	}
	assert!(!strict.accept_truncated_surrogate_pair && !strict.accept_invalid_codepoints && Options::default() == strict, "C12:default-options-are-strict");
	kani::cover!(which == 11 && given.accept_invalid_codepoints);
	kani::cover!(which == 6);
	core::mem::forget(r);
}

// ---------------------------------------------------------------------------
// L1: whitespace and follow sets

#[cfg(kani)]
#[kani::proof]
fn l1_whitespace_and_follow_sets() {
	let c: char = kani::any();
	assert!(super::is_whitespace(c) == ws(c), "C01:whitespace-is-exactly-sp-ht-lf-cr");
	let k = any_ctx();
	assert!(ctx_of(k).follows(c) == ref_follows(k, c), "C01:follow-set-per-context");
	kani::cover!(c == '\u{a0}');
	kani::cover!(c == '\u{c}');
	kani::cover!(k == 2 && c == ':');
}

// ---------------------------------------------------------------------------
// L2: literals

/// Index of the first character that deviates from `lit` (== lit.len() on a match).
pub fn ref_literal_mismatch(a: &[char], lit: &[u8]) -> usize {
	let mut i = 0;
	while i < lit.len() {
		if i >= a.len() || a[i] != lit[i] as char {
			return i;
		}
		i += 1;
	}
	lit.len()
}

macro_rules! l2_bool {
	($name:ident, $n:expr) => {
		#[cfg(kani)]
		#[kani::proof]
		#[kani::unwind(7)]
		fn $name() {
			const N: usize = $n;
			let backing: [char; 10] = any_chars10();
			let a = &backing[..N];
			let pulled = Cell::new(0);
			let base = any_base();
			let opts = any_options();
			let ctx = any_ctx();
			let mut p = parser_at(a, &pulled, base, 1, opts);
			let r = bool::parse_in(&mut p, ctx_of(ctx));
			let lit: &[u8] = if at(a, 0) == Some('f') { b"false" } else { b"true" };
			let m = ref_literal_mismatch(a, lit);
			match r {
				Ok(Meta(v, i)) => {
					assert!(m == lit.len(), "C01:literal-accepted-only-if-spelled-exactly");
					assert!(v == (lit.len() == 4), "C02:literal-value");
					assert!(i == 1 && p.code_map.len() == 2, "C05:scalar-one-entry");
					assert!(entry_is(&p, 1, base, base + lit.len(), 1), "C05:scalar-span-and-volume");
					assert!(p.position == base + lit.len() && p.pending.is_none(), "C01:literal-consumes-exactly-its-characters");
					assert!(pulled.get() == lit.len(), "C01:single-pass");
				}
				Err(e) => {
					assert!(m < lit.len(), "C01:literal-accepted-when-spelled-exactly");
					assert!(is_unexpected(&e, off(a, base, m), at(a, m)), "C07:literal-error-at-first-deviation");
					assert!(pulled.get() <= m + 1, "C01:single-pass");
					core::mem::forget(e);
				}
			}
			kani::cover!(N < 4 || m == lit.len());
			kani::cover!(N < 2 || (m < lit.len() && m > 0));
			kani::cover!(N > 5 || m == N);
			core::mem::forget(p);
		}
	};
}

l2_bool!(l2_bool_n0, 0);
l2_bool!(l2_bool_n3, 3);
l2_bool!(l2_bool_n4, 4);
l2_bool!(l2_bool_n5, 5);
l2_bool!(l2_bool_n6, 6);

macro_rules! l2_null {
	($name:ident, $n:expr) => {
		#[cfg(kani)]
		#[kani::proof]
		#[kani::unwind(7)]
		fn $name() {
			const N: usize = $n;
			let backing: [char; 10] = any_chars10();
			let a = &backing[..N];
			let pulled = Cell::new(0);
			let base = any_base();
			let opts = any_options();
			let ctx = any_ctx();
			let mut p = parser_at(a, &pulled, base, 1, opts);
			let r = <()>::parse_in(&mut p, ctx_of(ctx));
			let m = ref_literal_mismatch(a, b"null");
			match r {
				Ok(Meta((), i)) => {
					assert!(m == 4, "C01:literal-accepted-only-if-spelled-exactly");
					assert!(i == 1 && p.code_map.len() == 2, "C05:scalar-one-entry");
					assert!(entry_is(&p, 1, base, base + 4, 1), "C05:scalar-span-and-volume");
					assert!(p.position == base + 4 && p.pending.is_none(), "C01:literal-consumes-exactly-its-characters");
					assert!(pulled.get() == 4, "C01:single-pass");
				}
				Err(e) => {
					assert!(m < 4, "C01:literal-accepted-when-spelled-exactly");
					assert!(is_unexpected(&e, off(a, base, m), at(a, m)), "C07:literal-error-at-first-deviation");
					assert!(pulled.get() <= m + 1, "C01:single-pass");
					core::mem::forget(e);
				}
			}
			kani::cover!(N < 4 || m == 4);
			kani::cover!(N < 2 || (m < 4 && m > 0));
			kani::cover!(N > 4 || m == N);
			core::mem::forget(p);
		}
	};
}

l2_null!(l2_null_n0, 0);
l2_null!(l2_null_n3, 3);
l2_null!(l2_null_n4, 4);
l2_null!(l2_null_n5, 5);

// ---------------------------------------------------------------------------
// L3: numbers. Reference: table-driven DFA written from the RFC 8259 ABNF
//   number = [ minus ] int [ frac ] [ exp ]
// classes: 0 '-'  1 '0'  2 '1'-'9'  3 '.'  4 'e'/'E'  5 '+'  6 anything else

pub fn num_class(c: char) -> usize {
	match c {
		'-' => 0,
		'0' => 1,
		'1'..='9' => 2,
		'.' => 3,
		'e' | 'E' => 4,
		'+' => 5,
		_ => 6,
	}
}

const X: u8 = 255;
/// states: 0 start, 1 after '-', 2 "0", 3 int digits, 4 after '.', 5 frac
/// digits, 6 after e, 7 after exponent sign, 8 exponent digits
pub const NUM_DFA: [[u8; 7]; 9] = [
	// -  0  1-9  .  e  +  other
	[1, 2, 3, X, X, X, X],
	[X, 2, 3, X, X, X, X],
	[X, X, X, 4, 6, X, X],
	[X, 3, 3, 4, 6, X, X],
	[X, 5, 5, X, X, X, X],
	[X, 5, 5, X, 6, X, X],
	[7, 8, 8, X, X, 7, X],
	[X, 8, 8, X, X, X, X],
	[X, 8, 8, X, X, X, X],
];
pub const NUM_ACCEPTING: [bool; 9] = [false, false, true, true, false, true, false, false, true];

/// Ok(len): a maximal number lexeme of `len` characters followed by end of
/// input or a character of the context's follow set. Err(i): the input cannot
/// be extended to a valid text beyond character index `i`.
pub fn ref_number(a: &[char], ctx: u8) -> Result<usize, usize> {
	let mut state = 0usize;
	let mut i = 0;
	while i < a.len() {
		let t = NUM_DFA[state][num_class(a[i])];
		if t == X {
			return if NUM_ACCEPTING[state] && ref_follows(ctx, a[i]) {
				Ok(i)
			} else {
				Err(i)
			};
		}
		state = t as usize;
		i += 1;
	}
	if NUM_ACCEPTING[state] {
		Ok(a.len())
	} else {
		Err(a.len())
	}
}

macro_rules! l3_number {
	($name:ident, $n:expr, $unwind:expr) => {
		#[cfg(kani)]
		#[kani::proof]
		#[kani::unwind($unwind)]
		#[kani::stub(smallvec::SmallVec::try_grow, crate::verif::util::no_grow)]
		fn $name() {
			const N: usize = $n;
			let backing: [char; 10] = any_chars10();
			let a = &backing[..N];
			let pulled = Cell::new(0);
			let base = any_base();
			let opts = any_options();
			let ctx = any_ctx();
			let mut p = parser_at(a, &pulled, base, 1, opts);
			let r = NumberBuf::parse_in(&mut p, ctx_of(ctx));
			let want = ref_number(a, ctx);
			match r {
				Ok(Meta(v, i)) => {
					assert!(want.is_ok(), "C01:number-accepted-only-if-rfc8259-lexeme-plus-follow");
					let len = match want {
						Ok(l) => l,
						Err(_) => 0,
					};
					let b = v.as_bytes();
					assert!(b.len() == len, "C02:number-spelling-verbatim");
					let mut j = 0;
					while j < N {
						if j < len && j < b.len() {
							assert!(b[j] as char == a[j], "C02:number-spelling-verbatim");
						}
						j += 1;
					}
					assert!(i == 1 && p.code_map.len() == 2, "C05:scalar-one-entry");
					assert!(entry_is(&p, 1, base, base + len, 1), "C05:scalar-span-and-volume");
					assert!(p.position == base + len, "C01:number-consumes-exactly-its-lexeme");
					if len < N {
						// the look-ahead character is left pending, not consumed
						assert!(p.pending.map(|c| c.chr()) == Some(a[len]), "C01:number-lookahead-left-pending");
					} else {
						assert!(p.pending.is_none(), "C01:number-lookahead-left-pending");
					}
					assert!(pulled.get() <= len + 1, "C01:single-pass");
					core::mem::forget(v);
				}
				Err(e) => {
					assert!(want.is_err(), "C01:number-accepted-when-rfc8259-lexeme-plus-follow");
					let m = match want {
						Err(m) => m,
						Ok(_) => 0,
					};
					// everything before the error is ASCII: byte offset == char index
					assert!(is_unexpected(&e, base + m, at(a, m)), "C07:number-error-at-first-non-viable-character");
					assert!(pulled.get() <= m + 1, "C01:single-pass");
					core::mem::forget(e);
				}
			}
			kani::cover!(N < 1 || want.is_ok());
			kani::cover!(want == Err(N));
			kani::cover!(N < 2 || matches!(want, Ok(l) if l < N));
			kani::cover!(N < 1 || matches!(want, Err(m) if m < N));
			core::mem::forget(p);
		}
	};
}

l3_number!(l3_number_n0, 0, 2);
l3_number!(l3_number_n1, 1, 3);
l3_number!(l3_number_n2, 2, 4);
l3_number!(l3_number_n3, 3, 5);
l3_number!(l3_number_n4, 4, 6);
l3_number!(l3_number_n5, 5, 7);
l3_number!(l3_number_n6, 6, 8);
l3_number!(l3_number_n7, 7, 9);
l3_number!(l3_number_n8, 8, 10);

// ---------------------------------------------------------------------------
// L4 / D1 / C12: strings. Reference decoder written from RFC 8259 §7.

pub fn hexval(c: char) -> Option<u32> {
	match c {
		'0'..='9' => Some(c as u32 - '0' as u32),
		'a'..='f' => Some(c as u32 - 'a' as u32 + 10),
		'A'..='F' => Some(c as u32 - 'A' as u32 + 10),
		_ => None,
	}
}

#[derive(Clone, Copy, PartialEq, Eq)]
pub enum RefErr {
	None,
	/// unexpected character (or end of input) at this character index
	Unexpected(usize),
	/// high surrogate `hi` (escape starting at char index `from`) not followed
	/// by a low surrogate; the problem is known at char index `to` (exclusive)
	MissingLow { hi: u32, from: usize, to: usize },
	/// high surrogate followed by the `\u` escape of the non-low code unit `cu`
	InvalidLow { hi: u32, cu: u32, from: usize, to: usize },
	/// a code unit that is not a scalar value on its own (lone low surrogate)
	InvalidCp { cp: u32, from: usize, to: usize },
}

pub struct RefStr {
	pub ok: bool,
	/// expected decoded content, UTF-8
	pub out: Sink<4>,
	/// characters consumed, both quotes included (when ok)
	pub consumed: usize,
	pub err: RefErr,
	/// an unpaired high surrogate escape was directly followed by another
	/// high surrogate escape while the truncated-pair option was on
	pub high_after_high: bool,
}

enum El {
	Scalar(char),
	Unit(u32),
}

pub fn ref_string(a: &[char], trunc: bool, invalid: bool) -> RefStr {
	let mut r = RefStr {
		ok: false,
		out: Sink::new(),
		consumed: 0,
		err: RefErr::None,
		high_after_high: false,
	};
	let n = a.len();
	if n == 0 || a[0] != '"' {
		r.err = RefErr::Unexpected(0);
		return r;
	}
	let mut pending: Option<(u32, usize)> = None; // (high surrogate, index of its backslash)
	let mut i = 1;
	let mut steps = 0;
	while steps <= n {
		steps += 1;
		if i >= n {
			r.err = RefErr::Unexpected(n);
			return r;
		}
		let c = a[i];
		let start = i;
		let el;
		let next;
		if c == '"' {
			if let Some((hi, from)) = pending {
				if trunc {
					r.out.push_char('\u{fffd}');
				} else {
					r.err = RefErr::MissingLow { hi, from, to: i };
					return r;
				}
			}
			r.ok = true;
			r.consumed = i + 1;
			return r;
		} else if c == '\\' {
			if i + 1 >= n {
				r.err = RefErr::Unexpected(n);
				return r;
			}
			match a[i + 1] {
				'"' => el = El::Scalar('"'),
				'\\' => el = El::Scalar('\\'),
				'/' => el = El::Scalar('/'),
				'b' => el = El::Scalar('\u{8}'),
				'f' => el = El::Scalar('\u{c}'),
				'n' => el = El::Scalar('\n'),
				'r' => el = El::Scalar('\r'),
				't' => el = El::Scalar('\t'),
				'u' => {
					// four hex digits, unrolled (no loop: keeps the harness unwind bound small)
					let mut cu = 0u32;
					macro_rules! digit {
						($k:expr) => {
							let j = i + 2 + $k;
							if j >= n {
								r.err = RefErr::Unexpected(n);
								return r;
							}
							match hexval(a[j]) {
								Some(h) => cu = cu * 16 + h,
								None => {
									r.err = RefErr::Unexpected(j);
									return r;
								}
							}
						};
					}
					digit!(0);
					digit!(1);
					digit!(2);
					digit!(3);
					el = El::Unit(cu);
				}
				_ => {
					r.err = RefErr::Unexpected(i + 1);
					return r;
				}
			}
			next = match el {
				El::Unit(_) => i + 6,
				El::Scalar(_) => i + 2,
			};
		} else if (c as u32) < 0x20 {
			r.err = RefErr::Unexpected(i);
			return r;
		} else {
			el = El::Scalar(c);
			next = i + 1;
		}
		// surrogate pairing
		let mut unit = match el {
			El::Unit(cu) => Some(cu),
			El::Scalar(_) => None,
		};
		if let Some((hi, from)) = pending {
			pending = None;
			match unit {
				Some(cu) if (0xDC00..=0xDFFF).contains(&cu) => {
					let cp = 0x10000 + ((hi - 0xD800) << 10) + (cu - 0xDC00);
					r.out.push_char(char::from_u32(cp).unwrap());
					unit = None;
					i = next;
					continue;
				}
				Some(cu) => {
					if trunc {
						r.out.push_char('\u{fffd}');
						if (0xD800..=0xDBFF).contains(&cu) {
							r.high_after_high = true;
						}
					} else {
						r.err = RefErr::InvalidLow { hi, cu, from, to: next };
						return r;
					}
				}
				None => {
					if trunc {
						r.out.push_char('\u{fffd}');
					} else {
						r.err = RefErr::MissingLow { hi, from, to: next };
						return r;
					}
				}
			}
		}
		match (el, unit) {
			(El::Scalar(c), _) => r.out.push_char(c),
			(El::Unit(_), Some(cu)) => {
				if (0xD800..=0xDBFF).contains(&cu) {
					pending = Some((cu, start));
				} else if (0xDC00..=0xDFFF).contains(&cu) {
					if invalid {
						r.out.push_char('\u{fffd}');
					} else {
						r.err = RefErr::InvalidCp { cp: cu, from: start, to: next };
						return r;
					}
				} else {
					r.out.push_char(char::from_u32(cu).unwrap());
				}
			}
			(El::Unit(_), None) => (),
		}
		i = next;
	}
	r
}

/// Compares the implementation's result on `a` with the reference `want`.
/// `pulled` = characters pulled from the input, `pre` = code-map entries
/// before the unit started.
pub fn check_string<'a>(
	a: &[char],
	base: usize,
	opts: Options,
	p: &P<'a>,
	r: Result<Meta<crate::String, usize>, Error<Infallible>>,
	want: &RefStr,
	pulled: usize,
) {
	let strict = !opts.accept_truncated_surrogate_pair && !opts.accept_invalid_codepoints;
	match r {
		Ok(Meta(s, i)) => {
			if want.high_after_high {
				assert!(want.ok, "C12:unpaired-high-followed-by-high-escape");
			} else if strict {
				assert!(want.ok, "C01:string-accepted-only-if-rfc8259-string");
			} else {
				assert!(want.ok, "C12:lenient-accepts-only-the-documented-relaxations");
			}
			let b = s.as_bytes();
			let mut same = b.len() == want.out.len && !want.out.overflow;
			macro_rules! byte {
				($($j:expr),*) => { $( if $j < b.len() && $j < want.out.len && b[$j] != want.out.byte($j) { same = false; } )* };
			}
			byte!(0, 1, 2, 3, 4, 5, 6, 7, 8, 9, 10, 11, 12, 13, 14, 15);
			if want.high_after_high {
				assert!(same, "C12:unpaired-high-followed-by-high-escape");
			} else if strict {
				assert!(same, "C02:string-decoded-per-rfc8259-section-7");
			} else {
				assert!(same, "C12:lenient-decoding-one-replacement-per-unpaired-surrogate");
			}
			let end = off(a, base, want.consumed);
			assert!(i == 1 && p.code_map.len() == 2, "C05:scalar-one-entry");
			assert!(entry_is(p, 1, base, end, 1), "C05:scalar-span-and-volume");
			assert!(p.position == end && p.pending.is_none(), "C01:string-consumes-exactly-its-characters");
			assert!(pulled == want.consumed, "C01:single-pass");
			core::mem::forget(s);
		}
		Err(e) => {
			if want.high_after_high {
				assert!(!want.ok, "C12:unpaired-high-followed-by-high-escape");
				core::mem::forget(e);
				return;
			} else if strict {
				assert!(!want.ok, "C01:string-accepted-when-rfc8259-string");
			} else {
				assert!(!want.ok, "C12:lenient-accepts-every-documented-relaxation");
			}
			match (want.err, &e) {
				(RefErr::Unexpected(m), _) => {
					assert!(is_unexpected(&e, off(a, base, m), at(a, m)), "C07:string-error-at-first-non-viable-character");
					assert!(pulled <= m + 1, "C01:single-pass");
				}
				(RefErr::MissingLow { hi, from, to }, Error::MissingLowSurrogate(span, h)) => {
					assert!(*h as u32 == hi, "C07:surrogate-error-carries-the-code-units");
					assert!(
						span.start() >= off(a, base, from)
							&& span.start() < off(a, base, from + 6)
							&& span.end() >= span.start()
							&& span.end() <= off(a, base, to),
						"C07:surrogate-error-span-inside-the-offending-escapes"
					);
				}
				(RefErr::InvalidLow { hi, cu, from, to }, Error::InvalidLowSurrogate(span, h, c)) => {
					assert!(*h as u32 == hi && *c == cu, "C07:surrogate-error-carries-the-code-units");
					assert!(
						span.start() >= off(a, base, from) && span.end() >= span.start() && span.end() <= off(a, base, to),
						"C07:surrogate-error-span-inside-the-offending-escapes"
					);
				}
				(RefErr::InvalidCp { cp, from, to }, Error::InvalidUnicodeCodePoint(span, c)) => {
					assert!(*c == cp, "C07:surrogate-error-carries-the-code-units");
					assert!(
						span.start() >= off(a, base, from) && span.end() >= span.start() && span.end() <= off(a, base, to),
						"C07:surrogate-error-span-inside-the-offending-escapes"
					);
				}
				_ => panic!("C07:error-variant-matches-the-cause"),
			}
			core::mem::forget(e);
		}
	}
}

macro_rules! l4_string {
	($name:ident, $n:expr, $unwind:expr) => {
		#[cfg(kani)]
		#[kani::proof]
		#[kani::unwind($unwind)]
		#[kani::stub(smallvec::SmallVec::try_grow, crate::verif::util::no_grow)]
		fn $name() {
			const N: usize = $n;
			let backing: [char; 6] = any_chars6();
			let a = &backing[..N];
			let pulled = Cell::new(0);
			let base = any_base();
			let opts = any_options();
			let ctx = any_ctx();
			let mut p = parser_at(a, &pulled, base, 1, opts);
			let r = crate::String::parse_in(&mut p, ctx_of(ctx));
			let want = ref_string(a, opts.accept_truncated_surrogate_pair, opts.accept_invalid_codepoints);
			kani::cover!(N < 2 || want.ok);
			kani::cover!(N < 3 || (want.ok && want.out.len > 1));
			kani::cover!(want.err == RefErr::Unexpected(N));
			kani::cover!(N < 2 || matches!(want.err, RefErr::Unexpected(m) if m + 1 == N));
			check_string(a, base, opts, &p, r, &want, pulled.get());
			core::mem::forget(p);
		}
	};
}

l4_string!(l4_string_n0, 0, 3);
l4_string!(l4_string_n1, 1, 3);
l4_string!(l4_string_n2, 2, 3);
l4_string!(l4_string_n3, 3, 4);
l4_string!(l4_string_n4, 4, 5);
l4_string!(l4_string_n5, 5, 6);

/// Twelve characters chosen to reach every arm of the scanner.
#[cfg(kani)]
pub fn alpha12() -> char {
	let i: u8 = kani::any();
	match i {
		0 => '"',
		1 => '\\',
		2 => 'u',
		3 => 'n',
		4 => '/',
		5 => 'a',
		6 => '0',
		7 => 'd',
		8 => '8',
		9 => 'c',
		10 => '\u{1f}',
		_ => '\u{e9}',
	}
}

macro_rules! l4_alpha {
	($name:ident, $n:expr, $unwind:expr) => {
		#[cfg(kani)]
		#[kani::proof]
		#[kani::unwind($unwind)]
		#[kani::stub(smallvec::SmallVec::try_grow, crate::verif::util::no_grow)]
		fn $name() {
			const N: usize = $n;
			let backing: [char; 10] = [
				'"', alpha12(), alpha12(), alpha12(), alpha12(), alpha12(), alpha12(), alpha12(), alpha12(), alpha12(),
			];
			let a = &backing[..N];
			let pulled = Cell::new(0);
			let base = any_base();
			let opts = any_options();
			let mut p = parser_at(a, &pulled, base, 1, opts);
			let r = crate::String::parse_in(&mut p, Context::None);
			let want = ref_string(a, opts.accept_truncated_surrogate_pair, opts.accept_invalid_codepoints);
			kani::cover!(want.ok && want.out.len >= 3);
			kani::cover!(matches!(want.err, RefErr::Unexpected(m) if m + 1 == N));
			kani::cover!(matches!(want.err, RefErr::Unexpected(m) if m == N));
			check_string(a, base, opts, &p, r, &want, pulled.get());
			core::mem::forget(p);
		}
	};
}

l4_alpha!(l4_alpha_n6, 6, 7);
l4_alpha!(l4_alpha_n7, 7, 8);
l4_alpha!(l4_alpha_n8, 8, 9);

// --- shaped strings: elements with symbolic hex digit VALUES and case bits

#[cfg(kani)]
pub fn hex_char(v: u32) -> char {
	let upper: bool = kani::any();
	if v < 10 {
		(b'0' + v as u8) as char
	} else if upper {
		(b'A' + (v as u8 - 10)) as char
	} else {
		(b'a' + (v as u8 - 10)) as char
	}
}

/// kind 0: any `\uXXXX` (all 65,536 code units); 1: high surrogate escape;
/// 2: low surrogate escape; 3: non-surrogate `\uXXXX`; 4: raw character;
/// 5: two-character escape
#[cfg(kani)]
pub fn push_element(kind: u8, buf: &mut [char; 24], len: &mut usize) {
	match kind {
		0 | 1 | 2 | 3 => {
			let cu: u16 = kani::any();
			let cu = cu as u32;
			match kind {
				1 => kani::assume((0xD800..=0xDBFF).contains(&cu)),
				2 => kani::assume((0xDC00..=0xDFFF).contains(&cu)),
				3 => kani::assume(!(0xD800..=0xDFFF).contains(&cu)),
				_ => (),
			}
			buf[*len] = '\\';
			buf[*len + 1] = 'u';
			buf[*len + 2] = hex_char(cu >> 12);
			buf[*len + 3] = hex_char((cu >> 8) & 15);
			buf[*len + 4] = hex_char((cu >> 4) & 15);
			buf[*len + 5] = hex_char(cu & 15);
			*len += 6;
		}
		4 => {
			let c: char = kani::any();
			kani::assume(c as u32 >= 0x20 && c != '"' && c != '\\');
			buf[*len] = c;
			*len += 1;
		}
		_ => {
			let c: char = kani::any();
			kani::assume(matches!(c, '"' | '\\' | '/' | 'b' | 'f' | 'n' | 'r' | 't'));
			buf[*len] = '\\';
			buf[*len + 1] = c;
			*len += 2;
		}
	}
}

macro_rules! shaped {
	($name:ident, [$($kind:expr),*], $closed:expr) => {
		shaped!($name, [$($kind),*], $closed, 5);
	};
	($name:ident, [$($kind:expr),*], $closed:expr, $unwind:expr) => {
		#[cfg(kani)]
		#[kani::proof]
		#[kani::unwind($unwind)]
		#[kani::stub(smallvec::SmallVec::try_grow, crate::verif::util::no_grow)]
		fn $name() {
			let mut buf: [char; 24] = ['"'; 24];
			let mut len = 1;
			$( push_element($kind, &mut buf, &mut len); )*
			if $closed {
				buf[len] = '"';
				len += 1;
			}
			let a = &buf[..len];
			let pulled = Cell::new(0);
			let base = any_base();
			let opts = any_options();
			let mut p = parser_at(a, &pulled, base, 1, opts);
			let r = crate::String::parse_in(&mut p, Context::ObjectKey);
			let want = ref_string(a, opts.accept_truncated_surrogate_pair, opts.accept_invalid_codepoints);
			kani::cover!(!$closed || want.ok);
			check_string(a, base, opts, &p, r, &want, pulled.get());
			core::mem::forget(p);
		}
	};
}

// D1: every \uXXXX, every pair of \uXXXX\uYYYY (all 2^32 digit combinations)
shaped!(d1_escape_any, [0], true, 3);
shaped!(d1_escape_any_any, [0, 0], true, 4);
// C12: every sequence of <= 2 elements over {high, low, ordinary escape, raw}
shaped!(c12_h, [1], true, 3);
shaped!(c12_l, [2], true, 3);
shaped!(c12_o, [3], true, 3);
shaped!(c12_r, [4], true, 3);
shaped!(c12_e, [5], true, 3);
shaped!(c12_hh, [1, 1], true, 4);
shaped!(c12_hl, [1, 2], true, 4);
shaped!(c12_ho, [1, 3], true, 4);
shaped!(c12_hr, [1, 4], true, 4);
shaped!(c12_he, [1, 5], true, 4);
shaped!(c12_lh, [2, 1], true, 4);
shaped!(c12_ll, [2, 2], true, 4);
shaped!(c12_lo, [2, 3], true, 4);
shaped!(c12_lr, [2, 4], true, 4);
shaped!(c12_oh, [3, 1], true, 4);
shaped!(c12_ol, [3, 2], true, 4);
shaped!(c12_oo, [3, 3], true, 4);
shaped!(c12_or, [3, 4], true, 4);
shaped!(c12_rh, [4, 1], true, 4);
shaped!(c12_rl, [4, 2], true, 4);
shaped!(c12_ro, [4, 3], true, 4);
shaped!(c12_rr, [4, 4], true, 4);
// three elements (thorough): the combinations in which pairing state matters
shaped!(c12_hhl, [1, 1, 2], true, 5);
shaped!(c12_hlh, [1, 2, 1], true, 5);
shaped!(c12_hll, [1, 2, 2], true, 5);
shaped!(c12_lhl, [2, 1, 2], true, 5);
shaped!(c12_hrl, [1, 4, 2], true, 5);
shaped!(c12_hel, [1, 5, 2], true, 5);
shaped!(c12_rhl, [4, 1, 2], true, 5);
shaped!(c12_hlr, [1, 2, 4], true, 5);
shaped!(c12_ohl, [3, 1, 2], true, 5);
shaped!(c12_hol, [1, 3, 2], true, 5);
shaped!(c12_lll, [2, 2, 2], true, 5);
shaped!(c12_hhh, [1, 1, 1], true, 5);
// unterminated after an escape (end of input while a high surrogate is pending)
shaped!(c12_h_open, [1], false, 3);
shaped!(c12_hl_open, [1, 2], false, 4);

// ---------------------------------------------------------------------------
// S1: fragment parsers (the pieces the driver loop of Value::parse_in composes)

/// Index of the first non-whitespace character at or after `from`.
pub fn skip_ws(a: &[char], from: usize) -> usize {
	let mut j = from;
	let mut k = 0;
	while k < a.len() {
		if j == k && ws(a[k]) {
			j += 1;
		}
		k += 1;
	}
	j
}

/// An open (reserved, not yet closed) code-map entry.
pub fn entry_open(p: &P, i: usize, start: usize) -> bool {
	entry_is(p, i, start, start, 0)
}

macro_rules! s1_array_start {
	($name:ident, $n:expr, $unwind:expr) => {
		#[cfg(kani)]
		#[kani::proof]
		#[kani::unwind($unwind)]
		fn $name() {
			const N: usize = $n;
			let backing: [char; 6] = any_chars6();
			let a = &backing[..N];
			let pulled = Cell::new(0);
			let base = any_base();
			let mut p = parser_at(a, &pulled, base, 1, any_options());
			let r = array::StartFragment::parse_in(&mut p, ctx_of(any_ctx()));
			if at(a, 0) != Some('[') {
				match &r {
					Err(e) => {
						assert!(is_unexpected(e, base, at(a, 0)), "C07:array-start-error-position");
					}
					Ok(_) => panic!("C01:array-starts-with-bracket"),
				}
			} else {
				let j = skip_ws(a, 1);
				match &r {
					Ok(Meta(array::StartFragment::Empty, i)) => {
						assert!(at(a, j) == Some(']'), "C01:empty-array-is-bracket-ws-bracket");
						assert!(*i == 1 && p.code_map.len() == 2, "C05:array-one-entry-reserved");
						assert!(entry_is(&p, 1, base, off(a, base, j + 1), 1), "C05:empty-array-entry-closed-with-span-and-volume-1");
						assert!(p.position == off(a, base, j + 1) && p.pending.is_none(), "C01:empty-array-consumes-through-bracket");
						assert!(pulled.get() == j + 1, "C01:single-pass");
					}
					Ok(Meta(array::StartFragment::NonEmpty, i)) => {
						assert!(at(a, j) != Some(']'), "C01:empty-array-is-bracket-ws-bracket");
						assert!(*i == 1 && p.code_map.len() == 2, "C05:array-one-entry-reserved");
						assert!(entry_open(&p, 1, base), "C05:array-entry-stays-open-until-closing-bracket");
						assert!(p.position == off(a, base, j), "C01:array-start-consumes-bracket-and-whitespace-only");
						assert!(p.pending.map(|c| c.chr()) == at(a, j), "C01:first-item-character-left-pending");
						assert!(pulled.get() <= j + 1, "C01:single-pass");
					}
					Err(_) => panic!("C01:array-start-never-fails-after-bracket"),
				}
			}
			kani::cover!(N < 2 || matches!(r, Ok(Meta(array::StartFragment::Empty, _))));
			kani::cover!(N < 1 || matches!(r, Ok(Meta(array::StartFragment::NonEmpty, _))));
			kani::cover!(r.is_err());
			core::mem::forget(r);
			core::mem::forget(p);
		}
	};
}

s1_array_start!(s1_array_start_n0, 0, 5);
s1_array_start!(s1_array_start_n1, 1, 5);
s1_array_start!(s1_array_start_n2, 2, 5);
s1_array_start!(s1_array_start_n3, 3, 5);
s1_array_start!(s1_array_start_n4, 4, 6);

macro_rules! s1_array_continue {
	($name:ident, $n:expr, $unwind:expr) => {
		#[cfg(kani)]
		#[kani::proof]
		#[kani::unwind($unwind)]
		fn $name() {
			const N: usize = $n;
			let backing: [char; 6] = any_chars6();
			let a = &backing[..N];
			let pulled = Cell::new(0);
			let base = any_base();
			// code map: 3 entries; the array being continued is entry `arr`, still open
			let mut p = parser_at(a, &pulled, base, 3, any_options());
			let arr: usize = kani::any();
			kani::assume(arr < 3);
			let start: usize = kani::any();
			kani::assume(start <= base);
			{
				let e = p.code_map.get_mut(arr).unwrap();
				e.span = locspan::Span::new(start, start);
				e.volume = 0;
			}
			let r = array::ContinueFragment::parse_in(&mut p, arr);
			let j = skip_ws(a, 0);
			match (at(a, j), r) {
				(Some(','), Ok(array::ContinueFragment::Item)) => {
					assert!(p.position == off(a, base, j + 1) && p.pending.is_none(), "C01:comma-consumed");
					assert!(entry_open(&p, arr, start), "C05:array-entry-stays-open-until-closing-bracket");
					assert!(p.code_map.len() == 3, "C05:no-entry-for-punctuation");
				}
				(Some(']'), Ok(array::ContinueFragment::End)) => {
					assert!(p.position == off(a, base, j + 1) && p.pending.is_none(), "C01:closing-bracket-consumed");
					assert!(
						entry_is(&p, arr, start, off(a, base, j + 1), 3 - arr),
						"C05:array-entry-closed-at-bracket-with-volume-of-subtree"
					);
					assert!(p.code_map.len() == 3, "C05:no-entry-for-punctuation");
				}
				(c, Err(e)) => {
					assert!(c != Some(',') && c != Some(']'), "C01:array-continues-with-comma-or-bracket");
					assert!(is_unexpected(&e, off(a, base, j), c), "C07:array-continue-error-position");
					core::mem::forget(e);
				}
				_ => panic!("C01:array-continues-with-comma-or-bracket"),
			}
			assert!(pulled.get() <= j + 1, "C01:single-pass");
			kani::cover!(N < 1 || at(a, j) == Some(','));
			kani::cover!(N < 2 || (at(a, j) == Some(']') && j > 0));
			kani::cover!(j == N);
			core::mem::forget(p);
		}
	};
}

s1_array_continue!(s1_array_continue_n0, 0, 5);
s1_array_continue!(s1_array_continue_n1, 1, 5);
s1_array_continue!(s1_array_continue_n2, 2, 5);
s1_array_continue!(s1_array_continue_n3, 3, 5);

/// `{ ws* }` and error paths, fully symbolic characters.
macro_rules! s1_object_start {
	($name:ident, $n:expr, $unwind:expr) => {
		#[cfg(kani)]
		#[kani::proof]
		#[kani::unwind($unwind)]
		#[kani::stub(smallvec::SmallVec::try_grow, crate::verif::util::no_grow)]
		fn $name() {
			const N: usize = $n;
			let backing: [char; 6] = any_chars6();
			let a = &backing[..N];
			let pulled = Cell::new(0);
			let base = any_base();
			let mut p = parser_at(a, &pulled, base, 1, Options::strict());
			let r = object::StartFragment::parse_in(&mut p, ctx_of(any_ctx()));
			if at(a, 0) != Some('{') {
				match &r {
					Err(e) => {
						assert!(is_unexpected(e, base, at(a, 0)), "C07:object-start-error-position");
					}
					Ok(_) => panic!("C01:object-starts-with-brace"),
				}
			} else {
				let j = skip_ws(a, 1);
				if at(a, j) == Some('}') {
					match &r {
						Ok(Meta(object::StartFragment::Empty, i)) => {
							assert!(*i == 1 && p.code_map.len() == 2, "C05:object-one-entry-reserved");
							assert!(
								entry_is(&p, 1, base, off(a, base, j + 1), 1),
								"C05:empty-object-entry-closed-with-span-and-volume-1"
							);
							assert!(p.position == off(a, base, j + 1) && p.pending.is_none(), "C01:empty-object-consumes-through-brace");
							assert!(pulled.get() == j + 1, "C01:single-pass");
						}
						_ => panic!("C01:empty-object-is-brace-ws-brace"),
					}
				} else {
					// a key must follow: compare with the string reference on the rest
					let want = ref_string(&a[j.min(N)..], false, false);
					match &r {
						Ok(Meta(object::StartFragment::Empty, _)) => panic!("C01:empty-object-is-brace-ws-brace"),
						Ok(Meta(object::StartFragment::NonEmpty(Meta(_key, e)), i)) => {
							// N <= 4 cannot hold `{"":` plus anything more: only `{"":` itself
							assert!(want.ok, "C01:object-key-is-a-string");
							let k = skip_ws(a, j + want.consumed);
							assert!(at(a, k) == Some(':'), "C01:key-followed-by-colon");
							assert!(*i == 1 && *e == 2 && p.code_map.len() == 4, "C05:object-entry-key-entries-reserved-in-preorder");
							assert!(entry_open(&p, 1, base), "C05:object-entry-stays-open-until-closing-brace");
							assert!(entry_open(&p, 2, off(a, base, j)), "C05:entry-fragment-starts-at-its-key-and-stays-open");
							assert!(
								entry_is(&p, 3, off(a, base, j), off(a, base, j + want.consumed), 1),
								"C05:key-entry-closed-with-key-span"
							);
							assert!(p.position == off(a, base, k + 1), "C01:colon-consumed");
						}
						Err(e) => {
							match want.err {
								RefErr::Unexpected(m) if !want.ok => {
									assert!(
										is_unexpected(e, off(a, base, j + m), at(a, j + m)),
										"C07:object-key-error-position"
									);
								}
								_ => {
									if want.ok {
										let k = skip_ws(a, j + want.consumed);
										assert!(at(a, k) != Some(':'), "C01:key-colon-accepted");
										assert!(is_unexpected(e, off(a, base, k), at(a, k)), "C07:missing-colon-error-position");
									}
								}
							}
						}
					}
				}
			}
			kani::cover!(N < 2 || matches!(r, Ok(Meta(object::StartFragment::Empty, _))));
			kani::cover!(N < 4 || matches!(r, Ok(Meta(object::StartFragment::NonEmpty(_), _))));
			kani::cover!(r.is_err());
			core::mem::forget(r);
			core::mem::forget(p);
		}
	};
}

s1_object_start!(s1_object_start_n0, 0, 5);
s1_object_start!(s1_object_start_n1, 1, 5);
s1_object_start!(s1_object_start_n2, 2, 5);
s1_object_start!(s1_object_start_n3, 3, 5);
s1_object_start!(s1_object_start_n4, 4, 6);

#[cfg(kani)]
fn ws_or_not(buf: &mut [char; 12], len: &mut usize) {
	if kani::any() {
		let c: char = kani::any();
		kani::assume(ws(c));
		buf[*len] = c;
		*len += 1;
	}
}

/// Shaped: `{` ws? `"` c `"` ws? x — one symbolic key character of any
/// UTF-8 length, optional whitespace at both places, symbolic terminator.
#[cfg(kani)]
#[kani::proof]
#[kani::unwind(5)]
#[kani::stub(smallvec::SmallVec::try_grow, crate::verif::util::no_grow)]
fn s1_object_start_shaped() {
	let mut buf: [char; 12] = ['{'; 12];
	let mut len = 1;
	ws_or_not(&mut buf, &mut len);
	let kstart = len;
	buf[len] = '"';
	let c: char = kani::any();
	kani::assume(c as u32 >= 0x20 && c != '"' && c != '\\');
	buf[len + 1] = c;
	buf[len + 2] = '"';
	len += 3;
	let kend = len;
	ws_or_not(&mut buf, &mut len);
	let x: char = kani::any();
	kani::assume(!ws(x));
	buf[len] = x;
	len += 1;
	let a = &buf[..len];
	let pulled = Cell::new(0);
	let base = any_base();
	let mut p = parser_at(a, &pulled, base, 1, any_options());
	let r = object::StartFragment::parse_in(&mut p, Context::None);
	match r {
		Ok(Meta(object::StartFragment::NonEmpty(Meta(key, e)), i)) => {
			assert!(x == ':', "C01:key-followed-by-colon");
			let mut kb = [0u8; 4];
			assert!(key.as_str() == c.encode_utf8(&mut kb), "C02:key-decoded");
			assert!(i == 1 && e == 2 && p.code_map.len() == 4, "C05:object-entry-key-entries-reserved-in-preorder");
			assert!(entry_open(&p, 1, base), "C05:object-entry-stays-open-until-closing-brace");
			assert!(entry_open(&p, 2, off(a, base, kstart)), "C05:entry-fragment-starts-at-its-key-and-stays-open");
			assert!(
				entry_is(&p, 3, off(a, base, kstart), off(a, base, kend), 1),
				"C05:key-entry-closed-with-key-span"
			);
			assert!(p.position == off(a, base, len) && p.pending.is_none(), "C01:colon-consumed");
			assert!(pulled.get() == len, "C01:single-pass");
			core::mem::forget(key);
		}
		Ok(_) => panic!("C01:nonempty-object-start"),
		Err(e) => {
			assert!(x != ':', "C01:key-colon-accepted");
			assert!(is_unexpected(&e, off(a, base, len - 1), Some(x)), "C07:missing-colon-error-position");
			core::mem::forget(e);
		}
	}
	kani::cover!(x == ':' && utf8_len(c) == 3 && len == 7);
	kani::cover!(x != ':');
	core::mem::forget(p);
}

/// Shaped continue: ws? (`,` ws? `"` c `"` ws? x | `}` | other)
#[cfg(kani)]
#[kani::proof]
#[kani::unwind(5)]
#[kani::stub(smallvec::SmallVec::try_grow, crate::verif::util::no_grow)]
fn s1_object_continue_shaped() {
	let mut buf: [char; 12] = [' '; 12];
	let mut len = 0;
	ws_or_not(&mut buf, &mut len);
	let sep: char = kani::any();
	kani::assume(!ws(sep));
	let sep_at = len;
	buf[len] = sep;
	len += 1;
	ws_or_not(&mut buf, &mut len);
	let kstart = len;
	buf[len] = '"';
	let c: char = kani::any();
	kani::assume(c as u32 >= 0x20 && c != '"' && c != '\\');
	buf[len + 1] = c;
	buf[len + 2] = '"';
	len += 3;
	let kend = len;
	ws_or_not(&mut buf, &mut len);
	let x: char = kani::any();
	kani::assume(!ws(x));
	buf[len] = x;
	len += 1;
	let a = &buf[..len];
	let pulled = Cell::new(0);
	let base = any_base();
	let mut p = parser_at(a, &pulled, base, 3, any_options());
	let obj: usize = kani::any();
	kani::assume(obj < 3);
	let start: usize = kani::any();
	kani::assume(start <= base);
	{
		let e = p.code_map.get_mut(obj).unwrap();
		e.span = locspan::Span::new(start, start);
		e.volume = 0;
	}
	let r = object::ContinueFragment::parse_in(&mut p, obj);
	match r {
		Ok(object::ContinueFragment::End) => {
			assert!(sep == '}', "C01:object-continues-with-comma-or-brace");
			assert!(p.position == off(a, base, sep_at + 1) && p.pending.is_none(), "C01:closing-brace-consumed");
			assert!(
				entry_is(&p, obj, start, off(a, base, sep_at + 1), 3 - obj),
				"C05:object-entry-closed-at-brace-with-volume-of-subtree"
			);
			assert!(p.code_map.len() == 3, "C05:no-entry-for-punctuation");
			assert!(pulled.get() == sep_at + 1, "C01:single-pass");
		}
		Ok(object::ContinueFragment::Entry(Meta(key, e))) => {
			assert!(sep == ',' && x == ':', "C01:entry-is-comma-key-colon");
			let mut kb = [0u8; 4];
			assert!(key.as_str() == c.encode_utf8(&mut kb), "C02:key-decoded");
			assert!(e == 3 && p.code_map.len() == 5, "C05:entry-and-key-entries-reserved-in-preorder");
			assert!(entry_open(&p, obj, start), "C05:object-entry-stays-open-until-closing-brace");
			assert!(entry_open(&p, 3, off(a, base, kstart)), "C05:entry-fragment-starts-at-its-key-and-stays-open");
			assert!(
				entry_is(&p, 4, off(a, base, kstart), off(a, base, kend), 1),
				"C05:key-entry-closed-with-key-span"
			);
			assert!(p.position == off(a, base, len) && p.pending.is_none(), "C01:colon-consumed");
			assert!(pulled.get() == len, "C01:single-pass");
			core::mem::forget(key);
		}
		Err(e) => {
			if sep == '}' {
				panic!("C01:closing-brace-accepted");
			} else if sep != ',' {
				assert!(is_unexpected(&e, off(a, base, sep_at), Some(sep)), "C07:object-continue-error-position");
			} else {
				assert!(x != ':', "C01:key-colon-accepted");
				assert!(is_unexpected(&e, off(a, base, len - 1), Some(x)), "C07:missing-colon-error-position");
			}
			core::mem::forget(e);
		}
	}
	kani::cover!(sep == '}' && sep_at == 1);
	kani::cover!(sep == ',' && x == ':' && len == 8 && utf8_len(c) == 4);
	kani::cover!(sep == ',' && x != ':');
	kani::cover!(sep == ';');
	core::mem::forget(p);
}

/// `ContinueFragment` on fully symbolic short inputs (error paths: end of
/// input after the comma, non-string key, ...).
macro_rules! s1_object_continue {
	($name:ident, $n:expr, $unwind:expr) => {
		#[cfg(kani)]
		#[kani::proof]
		#[kani::unwind($unwind)]
		#[kani::stub(smallvec::SmallVec::try_grow, crate::verif::util::no_grow)]
		fn $name() {
			const N: usize = $n;
			let backing: [char; 6] = any_chars6();
			let a = &backing[..N];
			let pulled = Cell::new(0);
			let base = any_base();
			let mut p = parser_at(a, &pulled, base, 2, Options::strict());
			{
				let e = p.code_map.get_mut(0).unwrap();
				e.span = locspan::Span::new(0, 0);
				e.volume = 0;
			}
			let r = object::ContinueFragment::parse_in(&mut p, 0);
			let j = skip_ws(a, 0);
			match at(a, j) {
				Some('}') => {
					assert!(matches!(r, Ok(object::ContinueFragment::End)), "C01:closing-brace-accepted");
					assert!(entry_is(&p, 0, 0, off(a, base, j + 1), 2), "C05:object-entry-closed-at-brace-with-volume-of-subtree");
				}
				Some(',') => {
					let k = skip_ws(a, j + 1);
					let want = ref_string(&a[k.min(N)..], false, false);
					match &r {
						Ok(object::ContinueFragment::Entry(Meta(_, e))) => {
							assert!(want.ok, "C01:object-key-is-a-string");
							let c = skip_ws(a, k + want.consumed);
							assert!(at(a, c) == Some(':'), "C01:key-followed-by-colon");
							assert!(*e == 2 && entry_open(&p, 2, off(a, base, k)), "C05:entry-fragment-starts-at-its-key-and-stays-open");
						}
						Ok(_) => panic!("C01:entry-is-comma-key-colon"),
						Err(e) => match want.err {
							RefErr::Unexpected(m) if !want.ok => {
								assert!(is_unexpected(e, off(a, base, k + m), at(a, k + m)), "C07:object-key-error-position");
							}
							_ => {
								if want.ok {
									let c = skip_ws(a, k + want.consumed);
									assert!(at(a, c) != Some(':'), "C01:key-colon-accepted");
									assert!(is_unexpected(e, off(a, base, c), at(a, c)), "C07:missing-colon-error-position");
								}
							}
						},
					}
				}
				c => match &r {
					Err(e) => assert!(is_unexpected(e, off(a, base, j), c), "C07:object-continue-error-position"),
					Ok(_) => panic!("C01:object-continues-with-comma-or-brace"),
				},
			}
			kani::cover!(N < 1 || at(a, j) == Some('}'));
			kani::cover!(N < 2 || (at(a, j) == Some(',') && r.is_err()));
			kani::cover!(j == N);
			core::mem::forget(r);
			core::mem::forget(p);
		}
	};
}

s1_object_continue!(s1_object_continue_n0, 0, 5);
s1_object_continue!(s1_object_continue_n1, 1, 5);
s1_object_continue!(s1_object_continue_n2, 2, 5);
s1_object_continue!(s1_object_continue_n3, 3, 5);
s1_object_continue!(s1_object_continue_n4, 4, 6);


// ---------------------------------------------------------------------------
// C04, parser half: parse(esc(s)) == s, where esc is the RFC 8785 escaping the
// printer is shown to emit (C08 string_literal harness: printer and parser are
// never in the same formula; the two results compose by substitution).

pub const HEXL: [char; 16] = ['0', '1', '2', '3', '4', '5', '6', '7', '8', '9', 'a', 'b', 'c', 'd', 'e', 'f'];

/// Writes the reference escaping of `c` as characters; returns the new length.
pub fn esc_chars(c: char, buf: &mut [char; 20], mut len: usize) -> usize {
	let u = c as u32;
	let short = match u {
		0x22 => Some('"'),
		0x5C => Some('\\'),
		0x08 => Some('b'),
		0x09 => Some('t'),
		0x0A => Some('n'),
		0x0C => Some('f'),
		0x0D => Some('r'),
		_ => None,
	};
	if let Some(s) = short {
		buf[len] = '\\';
		buf[len + 1] = s;
		len += 2;
	} else if u < 0x20 {
		buf[len] = '\\';
		buf[len + 1] = 'u';
		buf[len + 2] = '0';
		buf[len + 3] = '0';
		buf[len + 4] = HEXL[(u >> 4) as usize];
		buf[len + 5] = HEXL[(u & 15) as usize];
		len += 6;
	} else {
		buf[len] = c;
		len += 1;
	}
	len
}

/// class 0: characters printed raw; 1: two-character escapes; 2: \u00xx
#[cfg(kani)]
fn char_of_class(class: u8) -> char {
	let c: char = kani::any();
	let u = c as u32;
	let short = matches!(u, 0x22 | 0x5C | 0x08 | 0x09 | 0x0A | 0x0C | 0x0D);
	match class {
		0 => kani::assume(u >= 0x20 && !short),
		1 => kani::assume(short),
		_ => kani::assume(u < 0x20 && !short),
	}
	c
}

macro_rules! c04_reparse {
	($name:ident, [$($class:expr),*], $unwind:expr) => {
		#[cfg(kani)]
		#[kani::proof]
		#[kani::unwind($unwind)]
		#[kani::stub(smallvec::SmallVec::try_grow, crate::verif::util::no_grow)]
		fn $name() {
			let mut buf: [char; 20] = ['"'; 20];
			let mut len = 1;
			let mut want = Sink::<2>::new();
			$(
				let c = char_of_class($class);
				len = esc_chars(c, &mut buf, len);
				want.push_char(c);
			)*
			buf[len] = '"';
			len += 1;
			let a = &buf[..len];
			let pulled = Cell::new(0);
			let mut p = parser_at(a, &pulled, 0, 0, any_options());
			match crate::String::parse_in(&mut p, Context::None) {
				Ok(Meta(s, _)) => {
					let b = s.as_bytes();
					let mut same = b.len() == want.len;
					macro_rules! byte {
						($j:expr) => { if $j < b.len() && $j < want.len && b[$j] != want.byte($j) { same = false; } };
					}
					byte!(0); byte!(1); byte!(2); byte!(3); byte!(4); byte!(5); byte!(6); byte!(7);
					assert!(same, "C04:printed-string-reparses-to-itself");
					assert!(p.position == off(a, 0, len), "C04:printed-string-is-consumed-entirely");
					core::mem::forget(s);
				}
				Err(e) => {
					core::mem::forget(e);
					panic!("C04:printed-string-is-valid-json");
				}
			}
			kani::cover!(want.len >= 1);
			core::mem::forget(p);
		}
	};
}

c04_reparse!(c04_reparse_raw, [0], 3);
c04_reparse!(c04_reparse_short, [1], 3);
c04_reparse!(c04_reparse_u00xx, [2], 3);
c04_reparse!(c04_reparse_raw_short, [0, 1], 4);
c04_reparse!(c04_reparse_short_u00xx, [1, 2], 4);
c04_reparse!(c04_reparse_u00xx_raw, [2, 0], 4);
c04_reparse!(c04_reparse_raw_raw, [0, 0], 4);
