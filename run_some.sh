#!/bin/sh
# development aid: run_some.sh TAG "PROP:ONLY" ... ; sequential, logs under .build/logs
tag=$1; shift
cd "$(dirname "$0")"
mkdir -p .build/logs
for po in "$@"; do
  p=${po%%:*}; o=${po#*:}
  s=$(date +%s)
  ./check $p --tier ${TIER:-quick} --only "$o" --no-evidence > .build/logs/$tag-$p-$(echo $o | tr -c 'A-Za-z0-9_' '_').log 2>&1
  echo "$po rc=$? $(( $(date +%s) - s ))s" >> .build/logs/$tag-summary.txt
done
echo ALLDONE >> .build/logs/$tag-summary.txt
