#!/usr/bin/env python3
"""Regenerates MANIFEST.json from registry.py (claimed checks) and the
not-applicable table below. Run after editing registry.py."""
import json, os, sys
sys.path.insert(0, os.path.dirname(os.path.realpath(__file__)))
import registry

def technique(P):
	kani = any(h["crate"] != "mir" for h in P["harnesses"])
	drv = any(h["crate"] == "mir" and h.get("tool") != "objcheck" for h in P["harnesses"])
	obj = any(h["crate"] == "mir" and h.get("tool") == "objcheck" for h in P["harnesses"])
	parts = []
	if kani:
		parts.append("bounded model checking of the compiled crate (Kani 0.68 -> CBMC 6.11 -> cadical SAT): symbolic inputs, assertions against a reference, counter-examples replayed natively")
	if drv:
		parts.append("symbolic execution of the MIR of the driver loop (src/parse/value.rs, compiler dump of the current tree) with z3 deciding every branch on a symbolic character, "
		             "against a reference pushdown recogniser, for every document up to the length bound; counter-example documents replayed on the real parser")
	if obj:
		parts.append("symbolic execution of the MIR of the functions named under this check (compiler dump of the current tree; drv/objcheck.py) with z3: object keys, fragment indices and code-map offsets are solver variables, "
		             "every branch on them forks under the path condition, callees outside the crate are contract models, the result of every path is compared with a reference (list model / layout / recursive definition); "
		             "counter-examples and a validation sample are replayed on the real code through a native helper built against /repo")
	return "; plus ".join(parts)



NA = registry.NOT_APPLICABLE
checks = []
for pid in sorted(registry.PROPS):
	P = registry.PROPS[pid]
	checks.append(dict(
		property_id=pid,
		quick_cmd="./check %s --tier quick" % pid,
		thorough_cmd="./check %s --tier thorough" % pid,
		evidence_file="evidence/%s.json" % pid,
		replay_cmd_template="./check %s --replay {path}" % pid,
		engine="kani-cbmc" if any(h["crate"] != "mir" for h in P["harnesses"]) else "mir-z3",
		level_claimed=dict(
			category="model_checking",
			text=P["level_text"],
			design_ref=P["design_ref"],
		),
		level_note=P["level_note"],
		technique=technique(P),
	))
m = dict(
	version=1,
	setup_cmd="./setup.sh",
	hooks=dict(
		guard="json_syntax_verif",
		enable="RUSTFLAGS='--cfg json_syntax_verif' JSON_SYNTAX_VERIF_DIR=/verif cargo kani ... (set by ./check)",
		baseline_off_cmd="cd /repo && cargo test --workspace --no-fail-fast --offline",
		source_commits=registry.HOOK_COMMITS,
		add_only=True,
	),
	engines=[dict(name="mir-z3", path="/verif/drv/drvcheck.py", serves_properties=[p for p in sorted(registry.PROPS) if any(h["crate"] == "mir" for h in registry.PROPS[p]["harnesses"])],
	              kind_free_text="symbolic executor for rustc MIR text (drv/mirx.py) with contract models of the callees; two front ends: drv/drvcheck.py + drv/driver.py (parser driver loop against a document-level reference) and drv/objcheck.py (Object operations, mapped lookups, fragment lookup, conversions, canonicalization, unordered equality); native replay helper drv/native built against /repo; z3 Python API from the tooling venv (python3-vt); invoked by ./check"),
	         dict(name="kani-cbmc", path="/verif/check", serves_properties=sorted(registry.PROPS),
	              kind_free_text="Kani 0.68.0 proof harnesses (external crate /verif/kani with a path dependency on /repo; in-crate harness modules /verif/incrate/*.rs included under cfg(json_syntax_verif)), CBMC 6.11.0 bounded model checker, cadical SAT back end")],
	checks=checks,
	notes=registry.NOTES,
	not_applicable=[dict(property_id=k, reason=v) for k, v in sorted(NA.items()) if k not in registry.PROPS],
)
json.dump(m, open(os.path.join(os.path.dirname(os.path.realpath(__file__)), "MANIFEST.json"), "w"), indent=1)
print("MANIFEST.json: %d checks, %d not applicable" % (len(checks), len(m["not_applicable"])))
