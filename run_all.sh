#!/bin/sh
# development aid: runs the quick (or $1) tier of every claimed property sequentially
tier=${1:-quick}
cd "$(dirname "$0")"
mkdir -p .build/logs
for p in $(python3 -c "import registry;print(' '.join(sorted(registry.PROPS)))"); do
  s=$(date +%s)
  ./check $p --tier $tier > .build/logs/$p-$tier.log 2>&1
  rc=$?
  echo "$p rc=$rc $(( $(date +%s) - s ))s" | tee -a .build/logs/summary-$tier.txt
done
