#!/bin/bash
cd /verif
run() { ./seed_eval.sh /verif/seeded/$1 "${@:2}"; }
run V1-1 C01:drv::
run C09-2 C09:obj::
run C10-1 C10:obj::
run C10-2 C10:obj::
run C06-3 C06:obj::
echo ALLDONE5 >> .build/logs/seed-summary.txt
