#!/bin/bash
cd /verif
run() { ./seed_eval.sh /verif/seeded/$1 "${@:2}"; }
run C14-2 C14:c14_laws_scalars_nums
echo ALLDONE7 >> .build/logs/seed-summary.txt
